"""Library model table for the abstract interpreter (trusted; listed in the evidence).

model(A, fn, frame, b, t, st, name) returns:
  None        not modelled (fall through to local-call handling / havoc)
  "diverge"   the call never returns
  True        handled, continue at t['target'] with the (mutated) state
"""
from .absint import *
from .absint2 import matches
from .linarith import Lin, TYPE_RANGE, LEN_MAX, U64MAX

PURE_SAME_SEQ = ("Deref::deref", "DerefMut::deref_mut", "AsRef::as_ref", "AsMut::as_mut", "Borrow::borrow", "BorrowMut::borrow_mut",
                 "String::as_str", "str::as_bytes", "Vec::as_slice", "Vec::as_mut_slice", "String::as_bytes", "String::as_mut_str",
                 "slice::as_ref", "str::as_ref", "String::into_bytes", "String::into_boxed_str", "Vec::into_boxed_slice",
                 "slice::to_vec", "ToOwned::to_owned", "str::to_owned", "ToString::to_string", "str::to_string", "String::from", "Box::new",
                 "slice::into_vec", "hint::must_use", "convert::identity", "String::clone", "str::trim_end_matches__no")
LEN_FNS = ("Vec::len", "slice::len", "str::len", "String::len", "VecDeque::len")
EMPTY_FNS = ("Vec::is_empty", "slice::is_empty", "str::is_empty", "String::is_empty")
NEW_EMPTY = ("Vec::new", "String::new", "Vec::with_capacity", "String::with_capacity")
PANICS = ("panicking::panic", "panicking::panic_fmt", "panicking::assert_failed", "panicking::panic_display", "panicking::unreachable_display",
          "panicking::panic_explicit", "rt::begin_panic", "panicking::panic_nounwind", "panicking::panic_bounds_check", "panicking::panic_str",
          "panicking::panic_const", "option::expect_failed", "option::unwrap_failed", "result::unwrap_failed", "process::abort", "process::exit")
NO_EFFECT_PREFIX = ("log::", "core::fmt::", "std::fmt::", "alloc::fmt::", "std::hint::", "core::hint::")


def seq_of(A, st, v):
    v = A.deref(st, v)
    return v if v[0] == "seq" else None


def int_of(A, st, v):
    v = A.deref(st, v)
    return v[1] if v[0] == "int" else None


def elem_default(A, st, ty):
    return A.default_noentry(st, ty)


def inner_ty(ty, wrapper):
    """T of Option<T> / Result<T, E>"""
    t = ty
    i = t.find(wrapper + "<")
    if i < 0:
        return None
    j = i + len(wrapper) + 1
    depth = 0
    out = []
    while j < len(t):
        c = t[j]
        if c in "<([":
            depth += 1
        elif c in ">)]":
            if depth == 0:
                break
            depth -= 1
        elif c == "," and depth == 0:
            break
        out.append(c)
        j += 1
    return "".join(out).strip()


def fresh_ident(A):
    A.symctr += 1
    return ("val", "%s.%d" % (A.cur, A.symctr))


def with_ident(s, ln=None, flags=None, ident="same"):
    """copy of seq value s with a new length / flags; ident 'same' keeps the content identity"""
    return ("seq", s[1] if ln is None else ln, s[2] if flags is None else flags, seq_ident(s) if ident == "same" else ident)


def sub_ident(s, start):
    i = seq_ident(s)
    if i is None or start is None:
        return None
    if start.is_const() and start.c == 0:
        return ("sub", i, Lin.const(0))
    return ("sub", i, start)


def pat_info(A, st, v):
    """(byte length Lin, ascii?) of a pattern argument (&str const or char const)"""
    v = A.deref(st, v)
    if v[0] == "seq":
        return v[1], ("ascii" in v[2])
    if v[0] == "int" and v[1].is_const():
        c = v[1].c
        n = 1 if c < 0x80 else 2 if c < 0x800 else 3 if c < 0x10000 else 4
        return Lin.const(n), c < 0x80
    return None, False


def pat_text(A, st, v):
    """the literal text of a constant pattern, or None"""
    v = A.deref(st, v)
    if v[0] == "seq":
        i = seq_ident(v)
        if i is not None and i[0] == "const":
            return i[1]
    if v[0] == "int" and v[1].is_const() and 0 <= v[1].c < 0x110000:
        return chr(v[1].c)
    return None


# combinator -> (family of the receiver, what happens on the positive tag, what happens on the negative tag)
#   ("call", argi, wrap)   result = wrap(closure_argi(payload))      wrap in {None, "Some", "Ok", "Err"}
#   ("call0", argi, wrap)  result = wrap(closure_argi())
#   ("pay", wrap)          result = wrap(payload)
#   ("const", tag)         result = that tag without payload
#   ("arg", argi)          result = the plain argument argi
COMBINATORS = {
    "Option::map_or_else": ("Option", ("call", 2, None), ("call0", 1, None)),
    "Option::map": ("Option", ("call", 1, "Some"), ("const", "None")),
    "Option::map_or": ("Option", ("call", 2, None), ("arg", 1)),
    "Option::and_then": ("Option", ("call", 1, None), ("const", "None")),
    "Option::unwrap_or_else": ("Option", ("pay", None), ("call0", 1, None)),
    "Option::ok_or_else": ("Option", ("pay", "Ok"), ("call0", 1, "Err")),
    "Option::is_some_and": ("Option", ("call", 1, None), ("bool", False)),
    "Option::is_none_or": ("Option", ("call", 1, None), ("bool", True)),
    "Result::map": ("Result", ("call", 1, "Ok"), ("pay", "Err")),
    "Result::map_err": ("Result", ("pay", "Ok"), ("call", 1, "Err")),
    "Result::and_then": ("Result", ("call", 1, None), ("pay", "Err")),
    "Result::unwrap_or_else": ("Result", ("pay", None), ("call", 1, None)),
    "Result::map_or_else": ("Result", ("call", 2, None), ("call", 1, None)),
    "Result::is_ok_and": ("Result", ("call", 1, None), ("bool", False)),
    "Result::is_err_and": ("Result", ("bool", False), ("call", 1, None)),
}


def closure_combinator(A, fn, frame, b, t, st, n, dest_ty):
    spec = None
    for k, v in COMBINATORS.items():
        if matches(n, k):
            spec = v
            break
    if spec is None:
        return None
    fam, pos, neg = spec
    # only worth it when a closure body is available for at least one side
    sides = [s for s in (pos, neg) if s[0] in ("call", "call0")]
    if not any(A.closure_of_operand(fn, t["args"][s[1]] if s[1] < len(t["args"]) else None) is not None for s in sides):
        return None
    o0 = t["args"][0]
    v = A.deref(st, A.operand(st, frame, o0))
    ptag, ntag = ("Some", "None") if fam == "Option" else ("Ok", "Err")
    tag = v[1] if v[0] == "opt" else None
    payload = v[2] if v[0] == "opt" else None
    rfam = opt_family(dest_ty)
    exits = []
    ok = True
    for (this_tag, action) in ((ptag, pos), (ntag, neg)):
        if tag is not None and tag != this_tag:
            continue
        s1 = st.copy()
        pay = payload if tag == this_tag or tag is None and this_tag == ptag else None
        if payload is not None and payload[0] == "either":
            pay = payload[1] if this_tag == ptag else payload[2]
        # payload type for defaults comes from the closure parameter
        kind = action[0]

        def wrap(rv, w):
            if w is None:
                return rv
            return ("opt", w, rv, rfam or ("Option" if w in ("Some", "None") else "Result"))
        if kind in ("call", "call0"):
            vals = [pay] if kind == "call" else []
            r = A.call_closure(fn, frame, b, t, s1, action[1], vals)
            if r is None:
                ok = False
                break
            for (s2, rv) in r:
                exits.append((s2, wrap(rv, action[2])))
        elif kind == "pay":
            exits.append((s1, wrap(pay, action[1])))
        elif kind == "const":
            exits.append((s1, ("opt", action[1], None, rfam or "Option")))
        elif kind == "bool":
            exits.append((s1, ("bool", ("const", action[1]))))
        elif kind == "arg":
            exits.append((s1, A.arg(s1, frame, t, action[1])))
    if not ok:
        return None
    outs = A.finish_call(fn, frame, b, t, exits, "cmb")
    return outs if outs else "diverge"


def model(A, fn, frame, b, t, st, name):
    n = name
    dest_ty = t["dest"]["ty"]

    def ret(v):
        A.set_dest(st, frame, t, v)
        return True

    # ---------------------------------------------------------------- panics
    if any(n.endswith(p) for p in PANICS):
        if not st.bottom:
            s = A.site(fn, b, "panic:explicit", "explicit panic / failed assertion (%s) is unreachable" % n.split("::")[-1])
            s.seen += 1
            if s.ok:
                s.fail_detail = "the panic call is reachable [context: %s]" % " > ".join(A.stack[-3:])
            s.ok = False
        return "diverge"
    if n.endswith("current_time_millis"):
        sy = A.newsym(st, "now", 0, CLOCK_MAX)
        return ret(("int", Lin.sym(sy)))
    if any(n.startswith(p) for p in NO_EFFECT_PREFIX):
        return ret(None)

    # ---------------------------------------------------------------- lengths
    if matches(n, *LEN_FNS) or n in ("core::slice::len", "core::str::len"):
        s = seq_of(A, st, A.arg(st, frame, t, 0))
        if s is not None:
            return ret(("int", s[1]))
        return ret(("int", Lin.sym(A.newsym(st, "len", 0, LEN_MAX))))
    if matches(n, *EMPTY_FNS) or n in ("core::slice::is_empty", "core::str::is_empty"):
        s = seq_of(A, st, A.arg(st, frame, t, 0))
        if s is not None:
            return ret(("bool", ("eq", s[1])))
        return ret(("bool", TOP))
    if matches(n, *NEW_EMPTY) and seq_kind(dest_ty):
        return ret(("seq", Lin.const(0), frozenset(["ascii"])))
    if n.endswith("vec::from_elem"):
        k = int_of(A, st, A.arg(st, frame, t, 1))
        if k is not None:
            return ret(("seq", k, frozenset()))
        return ret(None)
    if matches(n, *PURE_SAME_SEQ) or (n.endswith("::clone") and seq_kind(dest_ty)) or (matches(n, "Into::into", "From::from") and seq_kind(dest_ty)):
        v = A.arg(st, frame, t, 0)
        s = seq_of(A, st, v)
        if s is not None:
            if seq_kind(dest_ty) in ("vec", "string") or not dest_ty.startswith("&"):
                return ret(("seq", s[1], s[2], seq_ident(s)))       # a new owned value with the same contents
            return ret(v if v[0] == "ptr" else s)
        if matches(n, "Deref::deref", "DerefMut::deref_mut", "AsRef::as_ref", "AsMut::as_mut", "Borrow::borrow", "hint::must_use", "Box::new", "convert::identity"):
            return ret(v if v[0] in ("ptr", "int", "opt", "tuple") else None)
        return ret(None)
    if matches(n, "Clone::clone") and is_int_ty(dest_ty):
        i = int_of(A, st, A.arg(st, frame, t, 0))
        return ret(("int", i) if i is not None else None)
    if matches(n, "Into::into", "From::from") and is_int_ty(dest_ty):
        i = int_of(A, st, A.arg(st, frame, t, 0))
        if i is not None:
            lo, hi = TYPE_RANGE[dest_ty]
            if st.store.entails(i.addc(-hi)) and st.store.entails(Lin.const(lo).sub(i)):
                return ret(("int", i))
        return ret(None)

    if matches(n, "Shr::shr", "BitAnd::bitand", "BitOr::bitor", "BitXor::bitxor") and is_int_ty(dest_ty):
        vals = []
        for i in (0, 1):
            x = int_of(A, st, A.arg(st, frame, t, i))
            if x is None:
                aty = (t["args"][i].get("p") or {}).get("ty", t["args"][i].get("ty", "")).replace("&", "").replace("mut ", "").strip()
                x = A.fresh_int(st, aty if aty in TYPE_RANGE else dest_ty, "elem")[1]
            vals.append(("int", x))
        op = {"shr": "Shr", "bitand": "BitAnd", "bitor": "BitOr", "bitxor": "BitXor"}[n.rsplit("::", 1)[-1]]
        if op == "Shr":
            k = vals[1][1]
            bits = {"u8": 8, "u16": 16, "u32": 32, "u64": 64, "usize": 64, "u128": 128}.get(dest_ty)
            A.require(st, fn, b, "overflow:Shr", "shift amount below the bit width", [k.addc(-(bits - 1)) if bits else None, k.scale(-1)], cls="B")
        return ret(A.binop(st, op, vals[0], vals[1], dest_ty))

    # ---------------------------------------------------------------- indexing
    if (matches(n, "Index::index", "IndexMut::index_mut") or n in ("core::slice::index::index", "core::slice::index::index_mut", "core::str::traits::index",
                                                                    "core::str::traits::index_mut", "std::array::index", "std::array::index_mut")):
        base_v = A.arg(st, frame, t, 0)
        s = seq_of(A, st, base_v)
        ix = A.deref(st, A.arg(st, frame, t, 1))
        if s is None:
            gar = (t.get("gargs") or [""])[0]
            if "HashMap" in gar or "BTreeMap" in gar:
                sx = A.site(fn, b, "index:map", "map[key] panics for a missing key")
                sx.seen += 1
                sx.ok = False
                sx.fail_detail = "indexing a map by key"
                return ret(None)
            A.require(st, fn, b, "index", "index within bounds", [None])
            return ret(None)
        ln = s[1]
        is_str = seq_kind((t["args"][0].get("p") or {}).get("ty", "")) in ("str", "string")
        skey = A.recv_key(st, frame, t, 0)
        if ix[0] == "int":
            A.require(st, fn, b, "index", "index < len", [ix[1].sub(ln).addc(1)])
            return ret(elem_default(A, st, dest_ty.lstrip("&").replace("mut ", "").strip()) if not seq_kind(dest_ty) else None)
        if ix[0] == "range":
            kind, lo, hi = ix[1], ix[2], ix[3]
            if kind == "RangeFull":
                A.require(st, fn, b, "index:range", "full range: cannot fail", [])
                return ret(("seq", ln, s[2], seq_ident(s)))
            if kind == "Range":
                A.require(st, fn, b, "index:range", "start <= end <= len", [lo.sub(hi) if lo is not None and hi is not None else None, hi.sub(ln) if hi is not None else None])
                res = ("seq", hi.sub(lo), s[2], sub_ident(s, lo)) if lo is not None and hi is not None else None
                ends = [lo, hi]
            elif kind == "RangeFrom":
                A.require(st, fn, b, "index:range", "start <= len", [lo.sub(ln) if lo is not None else None])
                res = ("seq", ln.sub(lo), s[2], sub_ident(s, lo)) if lo is not None else None
                ends = [lo]
            elif kind == "RangeTo":
                A.require(st, fn, b, "index:range", "end <= len", [hi.sub(ln) if hi is not None else None])
                res = ("seq", hi, s[2], sub_ident(s, Lin.const(0))) if hi is not None else None
                ends = [hi]
            elif kind in ("RangeInclusive", "RangeToInclusive"):
                A.require(st, fn, b, "index:range", "end < len", [hi.sub(ln).addc(1) if hi is not None else None] + ([lo.sub(hi).addc(-1)] if lo is not None and hi is not None else []))
                res = ("seq", hi.addc(1).sub(lo if lo is not None else Lin.const(0)), s[2], sub_ident(s, lo if lo is not None else Lin.const(0))) if hi is not None else None
                ends = [lo, hi.addc(1) if hi is not None else None]
            else:
                A.require(st, fn, b, "index:range", "range within bounds", [None])
                res, ends = None, []
            if is_str:
                okb = all(e is not None and is_cb(st, s, e) for e in ends)
                sx = A.site(fn, b, "str-boundary", "str slice ends fall on char boundaries")
                if not st.bottom:
                    sx.seen += 1
                    if not okb:
                        if sx.ok:
                            sx.fail_detail = "cannot show that %s is a char boundary [context: %s]" % ([str(e) for e in ends], " > ".join(A.stack[-3:]))
                        sx.ok = False
                    elif sx.proof is None:
                        sx.proof = "ends are 0, len, find/rfind results (+ASCII pattern length) or inside an ASCII string"
            return ret(res)
        A.require(st, fn, b, "index", "index within bounds", [None])
        return ret(None)
    if matches(n, "slice::split_first", "slice::split_last") or n in ("core::slice::split_first", "core::slice::split_last"):
        s = seq_of(A, st, A.arg(st, frame, t, 0))
        if s is not None:
            ety = "u8" if "u8" in dest_ty else None
            el = A.fresh_int(st, ety, "elem") if ety else TOP
            rest = ("seq", s[1].addc(-1), s[2], fresh_ident(A))
            pay = ("tuple", ((el, rest) if n.endswith("split_first") else (el, rest)))
            # Some(..) exactly when the slice is not empty
            if st.store.entails(Lin.const(1).sub(s[1])):
                return ret(("opt", "Some", pay, "Option"))
            return ret(("opt", None, pay, "Option", (Lin.const(1).sub(s[1]),)))
        return ret(("opt", None, None, "Option"))
    if matches(n, "slice::get", "slice::get_mut", "slice::first_mut", "slice::last_mut", "Vec::get", "Vec::get_mut", "Vec::pop",
               "str::get", "str::strip_suffix", "str::strip_prefix", "str::rsplit_once", "str::split_once"):
        if matches(n, "slice::get", "slice::get_mut", "Vec::get", "Vec::get_mut") or n in ("core::slice::get", "core::slice::get_mut"):
            s = seq_of(A, st, A.arg(st, frame, t, 0))
            i = A.deref(st, A.arg(st, frame, t, 1))
            if s is not None and i[0] == "int":
                # element access with an integer index: Some exactly when index < len; a byte slice yields a byte
                pay = A.fresh_int(st, "u8", "elem") if ("&u8" in dest_ty or "& u8" in dest_ty or "&mut u8" in dest_ty) else None
                if st.store.entails(i[1].sub(s[1]).addc(1)):
                    return ret(("opt", "Some", pay, "Option"))
                return ret(("opt", None, pay, "Option", (i[1].sub(s[1]).addc(1),)))
        if matches(n, "Vec::pop"):
            k = A.recv_key(st, frame, t, 0)
            if k is not None:
                s = seq_of(A, st, ("ptr", k))
                if s is not None:
                    ns = A.newsym(st, "len", 0, LEN_MAX)
                    st.store.add(Lin.sym(ns).sub(s[1]))
                    A.write_key(st, k, ("seq", Lin.sym(ns), s[2], fresh_ident(A)))
        return ret(("opt", None, None, "Option"))

    # ---------------------------------------------------------------- Vec / String mutation
    if matches(n, "Vec::push", "Vec::insert", "Vec::remove", "Vec::swap_remove", "Vec::truncate", "Vec::clear", "Vec::retain", "Vec::retain_mut", "Vec::drain", "Vec::extend",
               "Vec::extend_from_slice", "Vec::append", "Vec::dedup", "Vec::sort", "Vec::sort_by", "Vec::resize", "String::push", "String::push_str", "String::truncate",
               "String::clear", "String::insert", "String::insert_str", "String::drain", "String::pop", "String::remove", "Extend::extend", "AddAssign::add_assign",
               "String::extend", "Vec::split_off", "Vec::reserve", "String::reserve"):
        k = A.recv_key(st, frame, t, 0)
        s = seq_of(A, st, A.arg(st, frame, t, 0))
        m = n.rsplit("::", 1)[-1]
        if s is None or k is None:
            A.havoc_call(fn, frame, b, t, st, [])
            if m in ("insert", "remove", "swap_remove", "split_off") and "Vec" in n:
                A.require(st, fn, b, "vec:" + m, "index within bounds", [None])
            return ret(None)
        ln = s[1]
        flags = s[2]
        newlen = None
        if m == "push" and "Vec" in n:
            newlen = ln.addc(1)
            flags = frozenset()
        elif m == "push" and "String" in n:
            c = int_of(A, st, A.arg(st, frame, t, 1))
            d = A.newsym(st, "chlen", 1, 4)
            if c is not None and st.store.entails(c.addc(-127)):
                d = None
                newlen = ln.addc(1)
            else:
                newlen = ln.add(Lin.sym(d))
                flags = frozenset()
        elif m in ("push_str", "extend_from_slice", "add_assign", "insert_str") or (m == "extend"):
            o = seq_of(A, st, A.arg(st, frame, t, 1 if m != "insert_str" else 2))
            if o is not None:
                newlen = ln.add(o[1])
                flags = flags & o[2]
            else:
                d = A.newsym(st, "ext", 0, LEN_MAX)
                newlen = ln.add(Lin.sym(d))
                flags = frozenset()
        elif m == "insert" and "Vec" in n:
            i = int_of(A, st, A.arg(st, frame, t, 1))
            A.require(st, fn, b, "vec:insert", "insert index <= len", [i.sub(ln) if i is not None else None])
            newlen = ln.addc(1)
            flags = frozenset()
        elif m in ("remove", "swap_remove") and "Vec" in n:
            i = int_of(A, st, A.arg(st, frame, t, 1))
            A.require(st, fn, b, "vec:remove", "remove index < len", [i.sub(ln).addc(1) if i is not None else None])
            newlen = ln.addc(-1)
        elif m == "truncate":
            i = int_of(A, st, A.arg(st, frame, t, 1))
            if "String" in n:
                okb = i is not None and is_cb(st, s, i)
                sx = A.site(fn, b, "str-boundary", "String::truncate at a char boundary")
                if not st.bottom:
                    sx.seen += 1
                    if not okb:
                        if sx.ok:
                            sx.fail_detail = "cannot show that %s is a char boundary" % (i,)
                        sx.ok = False
                    elif sx.proof is None:
                        sx.proof = "truncation point is len - k under ends_with(k ASCII bytes)"
            if i is not None and st.store.entails(i.sub(ln)):
                newlen = i                      # truncating to n <= len gives exactly n
            elif i is not None and st.store.entails(ln.sub(i)):
                newlen = ln
            else:
                ns = A.newsym(st, "len", 0, LEN_MAX)
                st.store.add(Lin.sym(ns).sub(ln))
                if i is not None:
                    st.store.add(Lin.sym(ns).sub(i))
                newlen = Lin.sym(ns)
        elif m == "clear":
            newlen = Lin.const(0)
        elif m in ("retain", "retain_mut", "drain", "dedup", "pop", "split_off", "remove"):
            if m == "drain":
                r = A.deref(st, A.arg(st, frame, t, 1))
                if r[0] == "range" and r[1] != "RangeFull":
                    lo, hi = r[2], r[3]
                    A.require(st, fn, b, "vec:drain", "drain range within bounds", [(hi if hi is not None else ln).sub(ln), (lo.sub(hi if hi is not None else ln)) if lo is not None else Lin.const(0)])
                elif r[0] == "range":
                    A.require(st, fn, b, "vec:drain", "drain(..) of the full range: cannot fail", [])
                else:
                    A.require(st, fn, b, "vec:drain", "drain range within bounds", [None])
            ns = A.newsym(st, "len", 0, LEN_MAX)
            st.store.add(Lin.sym(ns).sub(ln))
            newlen = Lin.sym(ns)
        elif m in ("sort", "sort_by", "reserve"):
            newlen = ln
        else:
            ns = A.newsym(st, "len", 0, LEN_MAX)
            newlen = Lin.sym(ns)
            flags = frozenset()
        # a mutated string is a new value: boundary facts about the old contents do not carry over, except that
        # appending keeps every old boundary and truncating at a boundary keeps those below it (not tracked)
        A.write_key(st, k, ("seq", newlen, flags, fresh_ident(A)))
        return ret(None)
    if n.endswith("slice::copy_from_slice") or matches(n, "slice::copy_from_slice", "slice::clone_from_slice"):
        d = seq_of(A, st, A.arg(st, frame, t, 0))
        s = seq_of(A, st, A.arg(st, frame, t, 1))
        A.require(st, fn, b, "copy_from_slice", "source and destination have equal lengths",
                  [d[1].sub(s[1]), s[1].sub(d[1])] if d is not None and s is not None else [None])
        return ret(None)
    if matches(n, "u16::to_be_bytes", "u32::to_be_bytes", "u64::to_be_bytes", "u128::to_be_bytes", "num::to_be_bytes") or n.endswith("::to_be_bytes"):
        k = array_len(dest_ty)
        return ret(("seq", Lin.const(k), frozenset()) if k is not None else None)

    # ---------------------------------------------------------------- Option / Result
    if matches(n, "Option::unwrap", "Option::expect", "Result::unwrap", "Result::expect", "Result::unwrap_err", "Result::expect_err"):
        v = A.deref(st, A.arg(st, frame, t, 0))
        want = "Some" if "Option" in n else ("Err" if n.endswith("_err") else "Ok")
        sx = A.site(fn, b, "unwrap", "%s on a value that is %s" % (n.rsplit("::", 1)[-1], want))
        if not st.bottom:
            sx.seen += 1
            if not (v[0] == "opt" and v[1] == want):
                if sx.ok:
                    sx.fail_detail = "cannot show the value is %s [context: %s]" % (want, " > ".join(A.stack[-3:]))
                sx.ok = False
            elif sx.proof is None:
                sx.proof = "value is %s on every path reaching the call" % want
        pay = v[2] if v[0] == "opt" and v[2] is not None else None
        return ret(pay)
    if matches(n, "Option::is_some", "Option::is_none", "Result::is_ok", "Result::is_err"):
        k = A.recv_key(st, frame, t, 0)
        v = A.deref(st, A.arg(st, frame, t, 0))
        fam = "Option" if "Option" in n else "Result"
        m = n.rsplit("::", 1)[-1]
        want = {"is_some": "Some", "is_none": "None", "is_ok": "Ok", "is_err": "Err"}[m]
        if v[0] == "opt" and v[1] is not None:
            return ret(("bool", ("const", v[1] == want)))
        if k is not None:
            return ret(("bool", ("tag", k, fam, frozenset([want]))))
        return ret(("bool", TOP))
    if matches(n, "Try::branch"):
        v = A.deref(st, A.arg(st, frame, t, 0))
        if v[0] == "opt":
            tag = {"Ok": "Continue", "Some": "Continue", "Err": "Break", "None": "Break"}.get(v[1])
            return ret(("opt", tag, v[2] if tag == "Continue" else None, "ControlFlow"))
        return ret(("opt", None, None, "ControlFlow"))
    if matches(n, "FromResidual::from_residual"):
        fam = opt_family(dest_ty)
        return ret(("opt", "Err" if fam == "Result" else "None", None, fam or "Result"))
    r = closure_combinator(A, fn, frame, b, t, st, n, dest_ty)
    if r is not None:
        return r
    if matches(n, "Option::map", "Option::and_then", "Option::ok_or", "Option::ok_or_else", "Result::map", "Result::map_err", "Result::ok", "Option::as_ref", "Option::as_mut",
               "Option::as_deref", "Option::cloned", "Option::copied", "Result::as_ref", "Option::filter", "Option::or", "Option::take"):
        v = A.deref(st, A.arg(st, frame, t, 0))
        fam = opt_family(dest_ty) or "Option"
        keep_payload = matches(n, "Option::as_ref", "Option::as_mut", "Option::as_deref", "Option::cloned", "Option::copied", "Result::as_ref", "Result::map_err", "Option::ok_or", "Option::ok_or_else")
        if v[0] == "opt" and v[1] is not None and not matches(n, "Option::and_then", "Option::filter", "Option::or", "Option::take"):
            tag = v[1]
            if fam == "Result" and tag in ("Some", "None"):
                tag = "Ok" if tag == "Some" else "Err"
            if fam == "Option" and tag in ("Ok", "Err"):
                tag = "Some" if tag == "Ok" else "None"
            return ret(("opt", tag, v[2] if keep_payload and tag in ("Some", "Ok") else None, fam))
        if v[0] == "opt" and keep_payload:
            return ret(("opt", None, v[2], fam))
        if matches(n, "Option::take"):
            k = A.recv_key(st, frame, t, 0)
            if k is not None:
                A.write_key(st, k, ("opt", "None", None, "Option"))
        return ret(("opt", None, None, fam))

    # ---------------------------------------------------------------- iterators
    if matches(n, "IntoIterator::into_iter", "slice::iter", "slice::iter_mut", "Vec::iter", "Vec::iter_mut") or n in ("core::slice::iter", "core::slice::iter_mut", "core::slice::iter::into_iter"):
        v = A.deref(st, A.arg(st, frame, t, 0))
        if v[0] == "range" and v[1] == "Range" and v[2] is not None and v[3] is not None:
            return ret(("iter", "range", (v[2], v[3])))
        if v[0] == "seq":
            return ret(("iter", "seq", (v[1],)))
        if v[0] == "iter":
            return ret(v)
        return ret(None)
    if matches(n, "Iterator::enumerate"):
        v = A.deref(st, A.arg(st, frame, t, 0))
        if v[0] == "iter" and v[1] == "seq":
            return ret(("iter", "enum", (v[2][0],)))
        return ret(None)
    if matches(n, "Iterator::take"):
        v = A.deref(st, A.arg(st, frame, t, 0))
        k = int_of(A, st, A.arg(st, frame, t, 1))
        if v[0] == "iter" and v[1] in ("enum", "seq"):
            if k is not None:
                m = A.newsym(st, "take", 0, LEN_MAX)
                st.store.add(Lin.sym(m).sub(v[2][0]))
                st.store.add(Lin.sym(m).sub(k))
                return ret(("iter", v[1], (Lin.sym(m),)))
            return ret(v)
        if v[0] == "iter" and v[1] == "range":
            return ret(v)
        return ret(None)
    if matches(n, "Iterator::next"):
        k = A.recv_key(st, frame, t, 0)
        v = A.deref(st, A.arg(st, frame, t, 0))
        if v[0] == "iter":
            kind = v[1]
            if kind == "range":
                lo, hi = v[2]
                ity = inner_ty(dest_ty, "Option") or "usize"
                tlo, thi = TYPE_RANGE.get(ity, (0, U64MAX))
                s = A.newsym(st, "i", tlo, thi)
                sl = Lin.sym(s)
                st.store.add(lo.sub(sl))
                st.store.add(sl.sub(hi).addc(1))
                return ret(("opt", None, ("int", sl), "Option"))
            if kind == "enum":
                s = A.newsym(st, "i", 0, LEN_MAX)
                sl = Lin.sym(s)
                st.store.add(sl.sub(v[2][0]).addc(1))
                return ret(("opt", None, ("tuple", (("int", sl), TOP)), "Option"))
        return ret(("opt", None, None, "Option"))
    if n.endswith("::recv") and ("UdpSocket" in n) and opt_family(dest_ty) == "Result":
        # documented: returns the number of bytes read, at most the length of the buffer
        buf = seq_of(A, st, A.arg(st, frame, t, 1))
        k = A.recv_key(st, frame, t, 1)
        sy = A.newsym(st, "recvd", 0, LEN_MAX)
        if buf is not None:
            st.store.add(Lin.sym(sy).sub(buf[1]))
        ity = inner_ty(dest_ty, "Result") or ""
        pay = ("int", Lin.sym(sy)) if is_int_ty(ity) else ("tuple", (("int", Lin.sym(sy)), TOP))
        return ret(("opt", None, pay, "Result"))
    if matches(n, "slice::binary_search_by", "slice::binary_search", "slice::binary_search_by_key") or n.startswith("core::slice::binary_search"):
        s = seq_of(A, st, A.arg(st, frame, t, 0))
        sy = A.newsym(st, "bs", 0, LEN_MAX)
        if s is not None:
            st.store.add(Lin.sym(sy).sub(s[1]))        # Ok(i): i < len ; Err(i): i <= len
        return ret(("opt", None, ("either", ("int", Lin.sym(sy)), ("int", Lin.sym(sy))), "Result"))
    if matches(n, "Iterator::find") and opt_family(dest_ty) == "Option":
        v = A.deref(st, A.arg(st, frame, t, 0))
        if v[0] == "iter" and v[1] == "enum":
            s = A.newsym(st, "i", 0, LEN_MAX)
            sl = Lin.sym(s)
            st.store.add(sl.sub(v[2][0]).addc(1))
            return ret(("opt", None, ("tuple", (("int", sl), TOP)), "Option"))
        return ret(("opt", None, None, "Option"))
    if matches(n, "slice::windows", "slice::chunks", "slice::chunks_exact", "slice::chunks_mut", "slice::rchunks", "Iterator::step_by") or \
            n in ("core::slice::windows", "core::slice::chunks", "core::slice::chunks_exact"):
        k = int_of(A, st, A.arg(st, frame, t, 1))
        A.require(st, fn, b, "nonzero-size", "%s size is not zero" % n.rsplit("::", 1)[-1], [Lin.const(1).sub(k) if k is not None else None])
        return ret(None)
    if matches(n, "slice::split_at", "slice::split_at_mut", "str::split_at", "Vec::split_off", "String::split_off") or n in ("core::slice::split_at", "core::str::split_at"):
        s = seq_of(A, st, A.arg(st, frame, t, 0))
        k = int_of(A, st, A.arg(st, frame, t, 1))
        A.require(st, fn, b, "split-point", "split point <= len", [k.sub(s[1]) if s is not None and k is not None else None])
        if ("str" in n or "String" in n) and s is not None:
            sx = A.site(fn, b, "str-boundary", "split point falls on a char boundary")
            if not st.bottom:
                sx.seen += 1
                if not is_cb(st, s, k):
                    if sx.ok:
                        sx.fail_detail = "cannot show that %s is a char boundary" % (k,)
                    sx.ok = False
        if not matches(n, "Vec::split_off", "String::split_off") and s is not None and k is not None:
            st.store.add(k.sub(s[1]))       # (continuing past the check)
            return ret(("tuple", (("seq", k, s[2], sub_ident(s, Lin.const(0))), ("seq", s[1].sub(k), s[2], sub_ident(s, k)))))
        if matches(n, "Vec::split_off", "String::split_off"):
            kk = A.recv_key(st, frame, t, 0)
            if kk is not None and k is not None and s is not None:
                A.write_key(st, kk, ("seq", k, frozenset(), fresh_ident(A)))
                return ret(("seq", s[1].sub(k), frozenset(), fresh_ident(A)))
            A.havoc_call(fn, frame, b, t, st, [])
        return ret(None)
    if matches(n, "slice::swap", "Vec::swap") or n == "core::slice::swap":
        s = seq_of(A, st, A.arg(st, frame, t, 0))
        i1 = int_of(A, st, A.arg(st, frame, t, 1))
        i2 = int_of(A, st, A.arg(st, frame, t, 2))
        A.require(st, fn, b, "index", "swap indices < len", [i1.sub(s[1]).addc(1) if s is not None and i1 is not None else None,
                                                             i2.sub(s[1]).addc(1) if s is not None and i2 is not None else None])
        return ret(None)
    if matches(n, "Iterator::sum", "Iterator::product"):
        # panics on overflow (with overflow checks): a class-B obligation the caller's rule has to classify
        A.require(st, fn, b, "iter-sum", "the %s of the iterator's items does not overflow %s" % (n.rsplit("::", 1)[-1], dest_ty), [None], cls="B")
        return ret(A.default_noentry(st, dest_ty))
    if matches(n, "BinaryHeap::new"):
        return ret(("seq", Lin.const(0), frozenset(), fresh_ident(A)))
    if matches(n, "BinaryHeap::len"):
        s = seq_of(A, st, A.arg(st, frame, t, 0))
        return ret(("int", s[1]) if s is not None else None)
    if matches(n, "BinaryHeap::push", "BinaryHeap::pop", "BinaryHeap::peek", "slice::first", "slice::last") or n in ("core::slice::first", "core::slice::last"):
        k = A.recv_key(st, frame, t, 0)
        s = seq_of(A, st, A.arg(st, frame, t, 0))
        m = n.rsplit("::", 1)[-1]
        if s is None or k is None:
            if m in ("push", "pop"):
                A.havoc_call(fn, frame, b, t, st, [])
            return ret(("opt", None, None, "Option") if m != "push" else None)
        if m == "push":
            A.write_key(st, k, ("seq", s[1].addc(1), frozenset(), fresh_ident(A)))
            return ret(None)
        if m in ("peek", "first", "last"):
            # Some(_) implies the container is not empty
            if st.store.entails(Lin.const(1).sub(s[1])):
                return ret(("opt", "Some", None, "Option"))
            return ret(("opt", None, None, "Option", (Lin.const(1).sub(s[1]),)))
        # pop
        if st.store.entails(Lin.const(1).sub(s[1])):
            A.write_key(st, k, ("seq", s[1].addc(-1), frozenset(), fresh_ident(A)))
            return ret(("opt", "Some", None, "Option"))
        ns = A.newsym(st, "len", 0, LEN_MAX)
        st.store.add(Lin.sym(ns).sub(s[1]))
        A.write_key(st, k, ("seq", Lin.sym(ns), frozenset(), fresh_ident(A)))
        return ret(("opt", None, None, "Option"))
    if matches(n, "Iterator::position", "Iterator::rposition"):
        v = A.deref(st, A.arg(st, frame, t, 0))
        if v[0] == "iter" and v[1] == "seq":
            s = A.newsym(st, "pos", 0, LEN_MAX)
            sl = Lin.sym(s)
            st.store.add(sl.sub(v[2][0]).addc(1))
            return ret(("opt", None, ("int", sl), "Option"))
        return ret(("opt", None, None, "Option"))
    if matches(n, "str::find", "str::rfind") or n in ("core::str::find", "core::str::rfind"):
        s = seq_of(A, st, A.arg(st, frame, t, 0))
        pl, ascii_ = pat_info(A, st, A.arg(st, frame, t, 1))
        if s is not None:
            sy = A.newsym(st, "at", 0, LEN_MAX)
            sl = Lin.sym(sy)
            st.store.add(sl.add(pl if pl is not None else Lin.const(0)).sub(s[1]))
            ptxt = pat_text(A, st, A.arg(st, frame, t, 1))
            if ptxt is not None:
                add_ct(st, seq_ident(s), sl, ptxt)
                if len(ptxt) == 1:
                    # a single character that does not occur in a known prefix of the haystack is found behind it
                    for pre in text_at_start(st, s):
                        if ptxt not in pre:
                            st.store.add(Lin.const(len(pre.encode())).sub(sl))
            # a match starts and ends on char boundaries; inside an ASCII pattern every position is one
            if pl is not None and ascii_:
                add_cb(st, seq_ident(s), sl, sl.add(pl))
            else:
                add_cb(st, seq_ident(s), sl)
                if pl is not None:
                    add_cb(st, seq_ident(s), sl.add(pl))
            return ret(("opt", None, ("int", sl), "Option"))
        return ret(("opt", None, None, "Option"))
    if matches(n, "str::starts_with", "str::ends_with") or n in ("core::str::starts_with", "core::str::ends_with"):
        s = seq_of(A, st, A.arg(st, frame, t, 0))
        pl, ascii_ = pat_info(A, st, A.arg(st, frame, t, 1))
        if s is not None and pl is not None:
            start = n.endswith("starts_with")
            lo = Lin.const(0) if start else s[1].sub(pl)
            hi = pl if start else s[1]
            if not ascii_:
                lo = hi = (pl if start else s[1].sub(pl))
            i = seq_ident(s)
            if i is not None:
                # only on the true outcome: the pattern fits, and its extent consists of char boundaries
                ptxt = pat_text(A, st, A.arg(st, frame, t, 1))
                c = ("and", ("le", pl.sub(s[1])), ("bnd", i, lo, hi))
                if ptxt is not None:
                    c = ("and", c, ("txt", i, Lin.const(0) if start else s[1].sub(pl), ptxt))
                return ret(("bool", ("onlytrue", c)))
            return ret(("bool", ("onlytrue", ("le", pl.sub(s[1])))))
        return ret(("bool", TOP))
    if matches(n, "str::parse", "FromStr::from_str"):
        ity = inner_ty(dest_ty, "Result")
        pay = A.default_noentry(st, ity) if ity else None
        return ret(("opt", None, pay, "Result"))
    if matches(n, "str::from_utf8", "String::from_utf8"):
        s = seq_of(A, st, A.arg(st, frame, t, 0))
        return ret(("opt", None, ("seq", s[1], frozenset(), seq_ident(s)) if s is not None else None, "Result"))
    if matches(n, "cmp::min", "Ord::min", "cmp::max", "Ord::max"):
        a = int_of(A, st, A.arg(st, frame, t, 0))
        c = int_of(A, st, A.arg(st, frame, t, 1))
        if a is not None and c is not None and is_int_ty(dest_ty):
            lo, hi = TYPE_RANGE[dest_ty]
            sy = A.newsym(st, "mm", lo, hi)
            sl = Lin.sym(sy)
            if "min" in n.rsplit("::", 1)[-1]:
                st.store.add(sl.sub(a))
                st.store.add(sl.sub(c))
                (al, _), (cl, _) = st.store.interval(a), st.store.interval(c)
                if al is not None and cl is not None:
                    st.store.add(Lin.const(min(al, cl)).sub(sl))
            else:
                st.store.add(a.sub(sl))
                st.store.add(c.sub(sl))
            return ret(("int", sl))
        return ret(None)
    if n.endswith("RangeInclusive::new") or matches(n, "RangeInclusive::new"):
        lo = int_of(A, st, A.arg(st, frame, t, 0))
        hi = int_of(A, st, A.arg(st, frame, t, 1))
        return ret(("range", "RangeInclusive", lo, hi))
    if matches(n, "RangeInclusive::contains", "Range::contains"):
        r = A.deref(st, A.arg(st, frame, t, 0))
        x = int_of(A, st, A.arg(st, frame, t, 1))
        if r[0] == "range" and x is not None and r[2] is not None and r[3] is not None:
            if r[1] == "RangeInclusive":
                return ret(("bool", ("and", ("le", r[2].sub(x)), ("le", x.sub(r[3])))))
            return ret(("bool", ("and", ("le", r[2].sub(x)), ("le", x.sub(r[3]).addc(1)))))
        return ret(("bool", TOP))
    if n == "fastrand::u64" or n.startswith("fastrand::"):
        r = A.deref(st, A.arg(st, frame, t, 0))
        # documented: panics if the range is empty
        A.require(st, fn, b, "empty-range", "the range handed to fastrand is not empty",
                  [r[2].sub(r[3]).addc(1)] if r[0] == "range" and r[1] == "Range" and r[2] is not None and r[3] is not None else
                  ([r[2].sub(r[3])] if r[0] == "range" and r[1] == "RangeInclusive" and r[2] is not None and r[3] is not None else [None]))
        if r[0] == "range" and r[2] is not None and r[3] is not None and is_int_ty(dest_ty):
            lo, hi = TYPE_RANGE[dest_ty]
            sy = A.newsym(st, "rnd", lo, hi)
            st.store.add(r[2].sub(Lin.sym(sy)))
            st.store.add(Lin.sym(sy).sub(r[3]).addc(1))
            return ret(("int", Lin.sym(sy)))
        return ret(None)
    if matches(n, "u64::saturating_add", "u32::saturating_add", "usize::saturating_add", "num::saturating_add", "num::checked_add", "num::wrapping_add", "num::saturating_sub",
               "num::checked_sub", "num::saturating_mul", "num::checked_mul", "num::wrapping_sub"):
        if "checked" in n:
            ity = inner_ty(dest_ty, "Option")
            a = int_of(A, st, A.arg(st, frame, t, 0))
            c = int_of(A, st, A.arg(st, frame, t, 1))
            pay = None
            if a is not None and c is not None and ity in TYPE_RANGE and "add" in n:
                lo, hi = TYPE_RANGE[ity]
                sy = A.newsym(st, "ck", lo, hi)
                st.store.add_eq(Lin.sym(sy).sub(a.add(c)))
                pay = ("int", Lin.sym(sy))
            return ret(("opt", None, pay, "Option"))
        return ret(None)
    return None
