"""E3 driver: per-function fixpoint with loop-head widening, call models, inlining, struct invariants."""
from .absint import *
from .absint import _ARR
from .linarith import Lin, Store, TYPE_RANGE, LEN_MAX, U64MAX
from .model import callee_name, strip_generics

MISSING = ("missing",)


def nm(t):
    """name the library model is keyed on: for a std/dependency callee the path of the called item itself (trait
    method or inherent method), not the instance rustc resolved it to (whose impl path is not nameable)"""
    if t.get("callee_local") is False and t.get("callee"):
        n = strip_generics(t["callee"])
        r = t.get("resolved") or ""
        # keep the `<Type as Trait>::m` form when the resolved instance has it: models look at the receiver type
        if r.startswith("<") and " as " in r:
            return strip_generics(r)
        return n
    return strip_generics(callee_name(t))


def forms(n):
    out = [n]
    if n.startswith("<") and " as " in n and ">::" in n:
        head, m = n.rsplit(">::", 1)
        a, tr = head[1:].split(" as ", 1)
        a = a.split("<", 1)[0].lstrip("&").replace("mut ", "").strip()
        tr = tr.split("<", 1)[0]
        out.append(a + "::" + m)
        out.append(tr + "::" + m)
    return out


def matches(n, *sfx):
    for f in forms(n):
        for s in sfx:
            if f == s or f.endswith("::" + s) or f.endswith(s):
                return True
    return False


def _mentions_local(r, l):
    """does rvalue r read local l"""
    for x in ([r.get("a"), r.get("b")] + list(r.get("ops") or ())):
        if isinstance(x, dict) and x.get("k") in ("copy", "move") and x["p"]["l"] == l:
            return True
    return isinstance(r.get("p"), dict) and r["p"]["l"] == l


def _key_order(k):
    return (str(k[0]), str(k[1]), tuple(str(x) for x in k[2:]))


def _lin_order(c):
    return (c.t, c.c)


def _collect_syms(v, out):
    if not isinstance(v, tuple):
        return
    for x in v:
        if isinstance(x, Lin):
            out.update(x.syms())
        elif isinstance(x, tuple):
            _collect_syms(x, out)
        elif isinstance(x, frozenset):
            for y in x:
                if isinstance(y, Lin):
                    out.update(y.syms())
                elif isinstance(y, tuple):
                    _collect_syms(y, out)


class StructInvariant:
    """declared invariant on a struct: lin over its integer fields / lengths of its sequence fields"""

    def __init__(self, adt, build, desc, fields=()):
        self.adt = adt
        self.build = build      # f(intf_field -> Lin, len_field -> Lin) -> list of Lin (each <= 0)
        self.desc = desc
        self.fields = tuple(fields)     # the fields the invariant speaks about: only functions touching one of them depend on it


class Analyzer(Interp):
    def __init__(self, P, effects=None, **kw):
        super().__init__(P, effects, **kw)
        self.ktype = {}
        self.frames = 0
        self.summaries = {}
        self.loop_info = {}
        self.inline_stack = []
        self.max_rounds = 8
        self.justify = {}          # (fn name, kind-prefix, callee/desc) -> reason
        self.loop_states = {}      # (fn, head, frame0?) -> (head_state, [(src, state)])
        self.no_inline = set()
        self.analyzed_standalone = set()
        self.frame_ids = {}
        self.visited = set()       # (fn name, block) executed with a non-bottom state
        self.nonconverged = set()
        self._touch = None
        self.in_region = 0
        self._enums = None
        self.observed_calls = {}
        self.ret_observed = {}          # fn name -> (lo, hi) of its integer result (from its context-free analysis)
        self.ret_ranges = {}            # assumed from the previous round
        self.ret_used = set()
        self.observed = {}              # (callee name, param index) -> [lo, hi] hull over the non-inlined call sites seen
        self.monotone = []              # (adt suffix, field): sequences that most functions only append to
        self._shrinkers = {}
        self._grow_cache = {}
        self.keep_dead = False          # keep the last value of locals past StorageDead (used by rules that inspect named locals)
        self.closure_ctx_only = set()   # closures analysed at their single call (through a modelled combinator)
        self.closure_multi = set()
        self.closure_types = None
        self.scope = None          # set of function names the analysis may enter (None: all)
        self.out_of_scope_calls = set()
        self.pinned = set()        # symbols gc must keep (loop-head values during a ranking pass)

    # ================================================================== join / widening
    def rename(self, st, old, new):
        m = {old: Lin.sym(new)}
        env = {}
        for k, v in st.env.items():
            env[k] = self._subst_val(v, m)
        store = Store()
        store.bottom = st.store.bottom
        for s, r in st.store.ranges.items():
            store.ranges[new if s == old else s] = r
        for c in st.store.cons:
            store.add(c.subst(m))
        return State(env, store)

    def _subst_val(self, v, m):
        if v[0] == "int":
            return ("int", v[1].subst(m))
        if v[0] == "seq":
            return ("seq", v[1].subst(m), v[2]) + ((self._subst_ident(v[3], m),) if len(v) > 3 else ())
        if v[0] == "tuple":
            return ("tuple", tuple(self._subst_val(x, m) for x in v[1]))
        if v[0] == "opt" and v[2] is not None:
            return ("opt", v[1], self._subst_val(v[2], m), v[3])
        if v[0] == "range":
            return ("range", v[1], v[2].subst(m) if v[2] is not None else None, v[3].subst(m) if v[3] is not None else None)
        if v[0] == "bool":
            return ("bool", self._subst_cond(v[1], m))
        if v[0] == "iter":
            return ("iter", v[1], tuple(x.subst(m) if isinstance(x, Lin) else x for x in v[2]))
        if v[0] == "cts":
            return ("cts", frozenset((self._subst_ident(i, m), pos.subst(m), text) for (i, pos, text) in v[1]))
        if v[0] == "cbs":
            return ("cbs", frozenset((self._subst_ident(i, m), lo.subst(m), hi.subst(m)) for (i, lo, hi) in v[1]))
        return v

    def _subst_ident(self, i, m):
        if isinstance(i, tuple) and i and i[0] == "sub":
            return ("sub", self._subst_ident(i[1], m), i[2].subst(m))
        return i

    def _subst_cond(self, c, m):
        if c is TOP or c is None:
            return c
        k = c[0]
        if k in ("le", "eq"):
            return (k, c[1].subst(m))
        if k in ("not", "onlytrue", "onlyfalse"):
            return (k, self._subst_cond(c[1], m))
        if k in ("and", "or"):
            return (k, self._subst_cond(c[1], m), self._subst_cond(c[2], m))
        return c

    def join(self, sts, tag, prev=None, widen_round=0):
        sts = [s for s in sts if s is not None and not s.bottom]
        if not sts:
            b = State()
            b.store.bottom = True
            return b
        if len(sts) == 1 and prev is None:
            return sts[0].copy()
        sides = [s.copy() for s in sts]
        env = {}
        keys = set()
        for s in sides:
            keys |= set(s.env)
        jsyms = {}
        for key in sorted(keys, key=_key_order):
            vals = [s.env.get(key, MISSING) for s in sides]
            if any(v is MISSING for v in vals) and key in self.ktype and any(v is not MISSING and v[0] in ("int", "seq") for v in vals):
                # never touched on some path: there it still has its entry value (what a read would produce)
                for si, v in enumerate(vals):
                    if v is MISSING:
                        d = self.default(sides[si], key, self.ktype[key])
                        if d is not TOP and d[0] in ("int", "seq"):
                            sides[si].env[key] = d
                            vals[si] = d
            if any(v is not MISSING and v[0] == "havoc" for v in vals) and key in self.ktype and any(v is not MISSING and v[0] in ("int", "seq") for v in vals):
                # forgotten on some path: some unknown value of its type (what a read would produce there)
                for si, v in enumerate(vals):
                    if v is not MISSING and v[0] == "havoc":
                        self.cur = "%s:h%d" % (tag, si)
                        d = self.read_key(sides[si], key, self.ktype[key])
                        if d is not TOP and d[0] in ("int", "seq"):
                            vals[si] = d
            if key == CB_KEY or key == CT_KEY:
                kind = "cbs" if key == CB_KEY else "cts"
                sets = [v[1] if v is not MISSING and v[0] == kind else frozenset() for v in vals]
                env[key] = (kind, frozenset.intersection(*sets))
                continue
            if all(v == vals[0] for v in vals) and vals[0] is not MISSING:
                env[key] = vals[0]
                continue
            kinds = {v[0] for v in vals}
            if kinds == {"int"}:
                j = "j:%s:%s" % (tag, key_str(key))
                jl = Lin.sym(j)
                los, his = [], []
                for s, v in zip(sides, vals):
                    # an incoming state may itself mention j (value at the previous visit): rename it away first
                    lo, hi = s.store.interval(v[1])
                    los.append(lo)
                    his.append(hi)
                jsyms[j] = (key, [v[1] for v in vals], None if any(x is None for x in los) else min(los), None if any(x is None for x in his) else max(his))
                env[key] = ("int", jl)
            elif kinds == {"seq"}:
                j = "jl:%s:%s" % (tag, key_str(key))
                jl = Lin.sym(j)
                los, his = [], []
                for s, v in zip(sides, vals):
                    lo, hi = s.store.interval(v[1])
                    los.append(lo)
                    his.append(hi)
                flags = frozenset.intersection(*[v[2] for v in vals])
                jsyms[j] = (key, [v[1] for v in vals], None if any(x is None for x in los) else min(los), None if any(x is None for x in his) else max(his))
                ids = {seq_ident(v) for v in vals}
                env[key] = ("seq", jl, flags, ids.pop() if len(ids) == 1 else ("join", tag, key_str(key)))
            elif kinds == {"opt"} and len({v[3] for v in vals}) == 1:
                tags = {v[1] for v in vals}
                pays = {v[2] for v in vals}
                env[key] = ("opt", vals[0][1] if len(tags) == 1 else None, vals[0][2] if len(pays) == 1 else None, vals[0][3])
            elif kinds == {"cbs"}:
                env[key] = ("cbs", frozenset.intersection(*[v[1] for v in vals]))
            elif kinds == {"bool"}:
                env[key] = ("bool", TOP)
            elif kinds == {"ptr"} or kinds == {"iter"} or kinds == {"range"} or kinds == {"tuple"} or kinds == {"agg"} or kinds == {"discr"} or kinds == {"fn"}:
                env[key] = ("havoc",)
            else:
                env[key] = ("havoc",)
        # j symbols: rename clashes (an incoming side that already uses j as "old head value")
        for j, (key, lins, lo, hi) in list(jsyms.items()):
            for i, s in enumerate(sides):
                uses = j in s.store.ranges or any(j in c.syms() for c in s.store.cons) or any(j in l.syms() for l in lins if l is not None)
                if uses:
                    old = j + "'"
                    sides[i] = self.rename(s, j, old)
                    lins[i] = lins[i].subst({j: Lin.sym(old)})
        store = Store()
        # candidate constraints
        for j, (key, lins, lo, hi) in jsyms.items():
            ty = self.ktype.get(key)
            tlo, thi = TYPE_RANGE.get(ty, (None, None)) if ty in TYPE_RANGE else ((0, LEN_MAX) if j.startswith("jl:") else (None, None))
            if widen_round >= 2 and prev is not None and j in prev.store.ranges:
                # interval widening  prev ∇ new : a bound that moved outwards jumps to the type bound, one that
                # moved inwards stays where it was (the iteration sequence must be increasing to terminate)
                plo, phi = prev.store.ranges.get(j, (None, None))
                if plo is None or lo is None or lo < plo:
                    lo = tlo if (plo is None or lo is None or lo < plo) and not (plo is None and lo is None) else lo
                    if plo is None:
                        lo = None
                else:
                    lo = plo
                if phi is None or hi is None or hi > phi:
                    hi = thi if not (phi is None and hi is None) else hi
                    if phi is None:
                        hi = None
                else:
                    hi = phi
            if lo is None:
                lo = tlo
            if hi is None:
                hi = thi
            if tlo is not None and lo is not None:
                lo = max(lo, tlo)
            if thi is not None and hi is not None:
                hi = min(hi, thi)
            store.ranges[j] = (lo, hi)
            for s, l in zip(sides, lins):
                s.store.ranges.setdefault(j, (None, None))
                s.store.add_eq(Lin.sym(j).sub(l))
        # symbol ranges: join per symbol
        allsyms = set()
        for s in sides:
            allsyms |= set(s.store.ranges)
        for sym in sorted(allsyms):
            if sym in jsyms:
                continue
            rs = [s.store.ranges.get(sym) for s in sides]
            if any(r is None for r in rs):
                # symbol unknown on some side: it cannot be referenced there; keep the weakest known bounds
                rs = [r for r in rs if r is not None]
                if len(rs) < len(sides):
                    # only safe to keep if every side that knows it agrees; sides that do not know it never use it
                    pass
            lo = None if any(r[0] is None for r in rs) else min(r[0] for r in rs)
            hi = None if any(r[1] is None for r in rs) else max(r[1] for r in rs)
            store.ranges[sym] = (lo, hi)
        common = set(sides[0].store._set)
        for s in sides[1:]:
            common &= s.store._set
        cands = []
        seen = set(common)
        for c in sorted(common, key=_lin_order):
            store.add(c)

        def addc(c):
            if c not in seen and not c.is_const():
                seen.add(c)
                cands.append(c)
        for s in sides:
            for c in s.store.cons:
                addc(c)
        for j, (key, lins, lo, hi) in jsyms.items():
            for s, l in zip(sides, lins):
                if len(l.t) == 1 and l.t[0][1] == 1:
                    sym = l.t[0][0]
                    m = {sym: Lin.sym(j).addc(-l.c)}
                    for c in s.store.cons:
                        if sym in c.syms():
                            addc(c.subst(m))
        if prev is not None:
            for c in prev.store.cons:
                addc(c)
        if prev is not None and widen_round >= 3:
            # widening of the relational part: from the third visit on only constraints already present at the
            # previous visit may survive, so the set can only shrink
            pset = prev.store._set
            cands = [c for c in cands if c in pset]
        cands = [c for c in cands if not any(sy.endswith("'") for sy in c.syms())]
        if len(cands) > 60:
            cands = cands[:60]
        for c in cands:
            if all(s.store.entails(c, budget=600) for s in sides):
                store.add(c)
        return State(env, store)

    def state_sig(self, st):
        if st is None:
            return None
        return (frozenset((k, v) for k, v in st.env.items() if v[0] != "havoc" or True), st.store.signature(), st.store.bottom)

    # ================================================================== function bodies
    def gc(self, st):
        """project the store onto the symbols some value still refers to (Fourier-Motzkin elimination of the dead
        ones, bounded; beyond the bound the facts about the dead symbol are dropped, which is sound)"""
        live = set(self.pinned)
        for v in st.env.values():
            _collect_syms(v, live)
        keep = lambda s: s in live or s.startswith("in:") or s.startswith("len:")
        dead = set()
        for c in st.store.cons:
            for s in c.syms():
                if not keep(s):
                    dead.add(s)
        if dead:
            cons = list(st.store.cons)
            for s in sorted(dead):
                pos, neg, rest = [], [], []
                for c in cons:
                    v = dict(c.t).get(s, 0)
                    (pos if v > 0 else neg if v < 0 else rest).append(c)
                lo, hi = st.store.ranges.get(s, (None, None))
                if hi is not None and hi < (1 << 62):
                    pos.append(Lin.sym(s).addc(-hi))
                if lo is not None and lo != 0 or lo == 0:
                    neg.append(Lin.sym(s).scale(-1).addc(lo or 0))
                if len(pos) * len(neg) <= 16:
                    for cp in pos:
                        ap = dict(cp.t)[s]
                        for cn in neg:
                            an = -dict(cn.t)[s]
                            r = cp.scale(an).add(cn.scale(ap))
                            if r.is_const():
                                if r.c > 0:
                                    st.store.bottom = True
                                continue
                            if len(r.t) > 4:
                                continue
                            g = 0
                            from math import gcd
                            for _, v in r.t:
                                g = gcd(g, abs(v))
                            if g > 1:
                                r = Lin({k: v // g for k, v in r.t}, -((-r.c) // g))
                            if len(r.t) == 1:
                                st.store.add(r)
                            elif r not in rest:
                                rest.append(r)
                cons = rest
            st.store.cons = cons
            st.store._set = set(cons)
        for s in [s for s in st.store.ranges if not keep(s)]:
            del st.store.ranges[s]
        return st

    def partition_by_tags(self, states, cap=4):
        """group the states meeting at a join by the known variant tags on which they disagree (Option/Result/
        ControlFlow values): keeps `let x = match .. {A => None, B => Some(read()?)}; if let Some(..) = x` and the
        Ok/Err exits of a function correlated with their side effects.  More than `cap` groups: plain join."""
        if len(states) < 2:
            return [states]
        keys = None
        for s in states:
            ks = {k for k, v in s.env.items() if isinstance(v, tuple) and v and v[0] == "opt" and v[1] is not None}
            keys = ks if keys is None else keys & ks
        diff = sorted((k for k in keys if len({s.env[k][1] for s in states}) > 1), key=repr)
        if not diff:
            return [states]
        groups = {}
        for s in states:
            groups.setdefault(tuple(s.env[k][1] for k in diff), []).append(s)
        if len(groups) > cap:
            return [states]
        return [groups[g] for g in sorted(groups)]

    def analyze_body(self, fn, frame, st0):
        """returns list of (state, ret value) at return points"""
        exits, _back = self._worklist(fn, frame, 0, st0)
        return exits

    def analyze_region(self, fn, frame, head, st_head, body, cap=96):
        """one abstract pass over the loop body starting from the loop-head state; the states arriving back at
        `head` are returned separately per path (paths are merged only when their states are equal, or at inner
        loop heads, or beyond `cap` states at one block)"""
        self.in_region += 1
        try:
            _exits, back = self._worklist(fn, frame, head, st_head, region=body, stop=head, nojoin_cap=cap)
        finally:
            self.in_region -= 1
        return back

    def _worklist(self, fn, frame, start, st0, region=None, stop=None, nojoin_cap=0):
        rpo = fn._rpo()
        idx = {b: i for i, b in enumerate(rpo)}
        loops = fn.loops()
        heads = set(loops)
        edge = {}                   # (pred, succ) -> [states]
        instate = {start: [st0]}
        rounds = {}
        exits = {}
        back = []
        pending = set([start])
        guard = 0
        processed = {}
        first = True
        while pending and guard < 20000:
            guard += 1
            b = min(pending, key=lambda x: idx.get(x, 1 << 30))
            pending.discard(b)
            if not (first and b == start):
                preds = [p for p in fn.preds(b) if edge.get((p, b))]
                if not preds:
                    continue
                incoming = []
                for p in preds:
                    incoming.extend(edge[(p, b)])
                if b in heads:
                    rounds[b] = rounds.get(b, 0) + 1
                    prev = instate.get(b)
                    new = [self.gc(self.join(incoming, "%d:%s:%d" % (frame, fn.short[-20:], b), prev=prev[0] if prev else None,
                                            widen_round=rounds[b]))]
                elif nojoin_cap:
                    new, seen_sig = [], set()
                    for s in incoming:
                        s = self.gc(s.copy())
                        sg = self.state_sig(s)
                        if sg not in seen_sig:
                            seen_sig.add(sg)
                            new.append(s)
                    if len(new) > nojoin_cap:
                        new = [self.gc(self.join(new, "%d:%s:%d" % (frame, fn.short[-20:], b)))]
                elif len(preds) == 1 and len(incoming) <= 4:
                    new = [s.copy() for s in incoming]          # keep partitions along straight-line code
                else:
                    new = []
                    for gi, grp in enumerate(self.partition_by_tags(incoming)):
                        new.append(self.gc(self.join(grp, "%d:%s:%d%s" % (frame, fn.short[-20:], b, ".p%d" % gi if gi else ""))))
                sig = tuple(self.state_sig(s) for s in new)
                if processed.get(b) == sig:
                    continue
                processed[b] = sig
                instate[b] = new
            first = False
            outs_by_succ = {}
            rets = []
            for st_in in instate[b]:
                st = st_in.copy()
                if st.bottom:
                    continue
                self.visited.add((fn.name, b))
                for (succ, s2, ret) in self.exec_block(fn, frame, b, st):
                    if succ is None:
                        if ret is not None:
                            rets.append((s2, ret))
                        continue
                    if s2.bottom:
                        continue
                    if nojoin_cap:
                        s2.trail = s2.trail + ((b, succ),)
                    outs_by_succ.setdefault(succ, []).append(s2)
            exits[b] = rets
            for succ in fn.succs(b):
                new_states = outs_by_succ.get(succ, [])
                if stop is not None and succ == stop:
                    back.extend((b, s) for s in new_states)
                    continue
                if region is not None and succ not in region:
                    continue
                if new_states or (b, succ) in edge:
                    edge[(b, succ)] = new_states
                    pending.add(succ)
        if guard >= 20000:
            self.nonconverged.add(fn.name)
        if region is None and not self.in_region:
            # (states computed inside a path-separated region pass describe single paths: never recorded)
            self.loop_states[(fn.name, frame)] = (instate, edge)
        out = []
        for b in sorted(exits):
            out.extend(exits[b])
        return out, back

    def is_enum(self, adt):
        if self._enums is None:
            self._enums = {a["name"] for a in self.P.facts.get("adts", []) if a.get("kind") == "enum"}
            self._enums |= {n[len("mdns_sd::"):] for n in self._enums if n.startswith("mdns_sd::")}
        return adt in self._enums

    def check_field_range(self, st, fn, b, key, v):
        fr = self.field_range(key)
        if fr is None or v is None or v is TOP:
            return
        if v[0] == "int":
            self.require(st, fn, b, "field-range:%s" % ".".join(str(x) for x in key[2][-2:]),
                         "value stored in a range-declared field stays within [%d, %d]" % fr,
                         [Lin.const(fr[0]).sub(v[1]), v[1].addc(-fr[1])], cls="I")
        else:
            self.require(st, fn, b, "field-range:%s" % ".".join(str(x) for x in key[2][-2:]), "value stored in a range-declared field is tracked", [None], cls="I")

    def exec_block(self, fn, frame, b, st):
        self.cur = "%d:%s:%d" % (frame, fn.short[-24:], b)
        self.symctr = 0
        for i, s in enumerate(fn.stmts(b)):
            if st.bottom:
                return []
            k = s["k"]
            self.cur_pos = (fn.name, b, i)
            if k == "assign":
                p = s["p"]
                v = self.rvalue(st, frame, s["r"], p["ty"])
                if v[0] == "ptr" and p["ty"].startswith("&") and seq_kind(p["ty"]) in ("slice", "str", "array"):
                    # a reference to a slice / str is an immutable view of a fixed extent: keep the sequence facts
                    # (length, flags, identity) in the reference itself so that they survive joins
                    dv = self.deref(st, v)
                    if dv[0] == "seq":
                        v = dv
                key, left = self.resolve(st, frame, p)
                if left:
                    continue        # store into an element: lengths unchanged
                self.ktype[key] = p["ty"]
                if v[0] == "tuple" and not seq_kind(p["ty"]):
                    # tuple aggregate: keep the components under their own keys so that joins work per component
                    self.write_key(st, key, TOP)
                    for ci, cv in enumerate(v[1]):
                        if cv is not None and cv is not TOP:
                            ck = (key[0], key[1], key[2] + (ci,))
                            if cv[0] == "tuple" or cv[0] == "agg":
                                continue
                            st.env[ck] = cv
                    continue
                if (v is TOP or v[0] == "top") and s["r"]["k"] == "use" and s["r"]["a"].get("k") in ("copy", "move"):
                    skey, sleft = self.resolve(st, frame, s["r"]["a"]["p"])
                    self.write_key(st, key, TOP)
                    if not sleft and skey != key:
                        self.copy_subtree(st, skey, key)
                    continue
                if v[0] == "agg":
                    # struct aggregate: spread fields; an enum variant's payload lives under its downcast
                    self.write_key(st, key, TOP)
                    pre = key[2]
                    if v[2] is not None and self.is_enum(v[1]):
                        pre = pre + ("as:" + v[2],)
                    for fname, fv in zip(v[3], v[4]):
                        fk = (key[0], key[1], pre + (int(fname) if str(fname).isdigit() else fname,))
                        st.env[fk] = fv
                        self.check_field_range(st, fn, b, fk, fv)
                    continue
                self.write_key(st, key, v)
                self.check_field_range(st, fn, b, key, v)
            elif k == "setdiscr":
                key, left = self.resolve(st, frame, s["p"])
                if not left:
                    self.write_key(st, key, TOP)
            elif k == "dead" and not self.keep_dead:
                l = s["l"]
                for key in [key for key in st.env if key[0] == frame and key[1] == l]:
                    del st.env[key]
            elif k == "assume":
                v = self.operand(st, frame, s["a"])
                if v[0] == "bool":
                    self.assume(st, v[1], True)
        if st.bottom:
            return []
        t = fn.term(b)
        k = t["k"]
        if k == "goto":
            return [(t["target"], st, None)]
        if k == "return":
            rv = st.env.get((frame, 0, ()), None)
            if rv is None:
                rv = self.read_key(st, (frame, 0, ()), fn.local_ty(0))
            return [(None, st, rv)]
        if k in ("unreachable", "resume", "abort"):
            return []
        if k == "drop":
            return [(t["target"], st, None)]
        if k == "switch":
            return self.exec_switch(fn, frame, b, t, st)
        if k == "assert":
            self.exec_assert(fn, frame, b, t, st)
            return [(t["target"], st, None)]
        if k == "call":
            return self.exec_call(fn, frame, b, t, st)
        return []

    def exec_switch(self, fn, frame, b, t, st):
        d = self.deref(st, self.operand(st, frame, t["d"]))
        outs = []
        branches = t["branches"]
        other = t["otherwise"]
        if d[0] == "bool":
            for v, tgt in branches:
                s2 = st.copy()
                self.assume(s2, d[1], bool(v))
                outs.append((tgt, s2, None))
            vals = {bool(v) for v, _ in branches}
            s2 = st.copy()
            if len(vals) == 1:
                self.assume(s2, d[1], not next(iter(vals)))
            outs.append((other, s2, None))
            return outs
        if d[0] == "discr":
            key, ty = d[1], d[2]
            fam = opt_family(ty)
            names = FAM_VARIANTS.get(fam, {})
            seen = set()
            for v, tgt in branches:
                s2 = st.copy()
                if fam:
                    nmv = names.get(v)
                    seen.add(nmv)
                    self.assume(s2, ("tag", key, fam, frozenset([nmv])), True)
                outs.append((tgt, s2, None))
            s2 = st.copy()
            if fam:
                rest = frozenset(set(names.values()) - seen)
                if rest:
                    self.assume(s2, ("tag", key, fam, rest), True)
                else:
                    s2.store.bottom = True
            outs.append((other, s2, None))
            return outs
        if d[0] == "int":
            for v, tgt in branches:
                s2 = st.copy()
                # two's complement for signed switch values is not needed for the unsigned cases in this crate
                self.assume(s2, ("eq", d[1].addc(-v)), True)
                outs.append((tgt, s2, None))
            s2 = st.copy()
            # otherwise: value differs from all listed; refine only at the range ends
            lo, hi = s2.store.interval(d[1])
            for v, _ in sorted(branches):
                if lo is not None and v == lo:
                    s2.store.add(Lin.const(lo + 1).sub(d[1]))
                    lo += 1
            for v, _ in sorted(branches, reverse=True):
                if hi is not None and v == hi:
                    s2.store.add(d[1].addc(-(hi - 1)))
                    hi -= 1
            outs.append((other, s2, None))
            return outs
        for v, tgt in branches:
            outs.append((tgt, st.copy(), None))
        outs.append((other, st.copy(), None))
        return outs

    # ================================================================== asserts
    def exec_assert(self, fn, frame, b, t, st):
        m = t["msg"]
        k = m["k"]
        if k == "bounds":
            ln = self.deref(st, self.operand(st, frame, m["len"]))
            ix = self.deref(st, self.operand(st, frame, m["index"]))
            l1 = ln[1] if ln[0] == "int" else None
            i1 = ix[1] if ix[0] == "int" else None
            self.require(st, fn, b, "bounds", "index < len (array/slice index)", [i1.sub(l1).addc(1) if l1 is not None and i1 is not None else None])
            return
        if k == "overflow":
            a = self.deref(st, self.operand(st, frame, m["a"]))
            bb_ = self.deref(st, self.operand(st, frame, m["b"]))
            ty = (m["a"].get("p") or {}).get("ty") or m["a"].get("ty") or "u64"
            lo, hi = TYPE_RANGE.get(ty, (0, U64MAX))
            op = m["op"].replace("Unchecked", "")
            lins = [None]
            if a[0] == "int" and bb_[0] == "int":
                x, y = a[1], bb_[1]
                if op == "Add":
                    lins = [x.add(y).addc(-hi)]
                    if lo < 0:
                        lins.append(Lin.const(lo).sub(x.add(y)))
                elif op == "Sub":
                    lins = [Lin.const(lo).sub(x.sub(y))]
                    if lo < 0:
                        lins.append(x.sub(y).addc(-hi))
                elif op == "Mul":
                    if y.is_const() and y.c >= 0:
                        lins = [x.scale(y.c).addc(-hi)]
                    elif x.is_const() and x.c >= 0:
                        lins = [y.scale(x.c).addc(-hi)]
                    else:
                        (xl, xh), (yl, yh) = st.store.interval(x), st.store.interval(y)
                        if None not in (xl, xh, yl, yh) and xl >= 0 and yl >= 0 and xh * yh <= hi:
                            lins = []
                        else:
                            lins = [None]
                elif op in ("Shl", "Shr"):
                    bits = {"u8": 8, "u16": 16, "u32": 32, "u64": 64, "usize": 64, "u128": 128}.get(ty, 64)
                    lins = [y.addc(-(bits - 1))]
            self.require(st, fn, b, "overflow:" + op, "%s does not overflow %s" % (op, ty), lins, cls="B")
            return
        if k in ("divzero", "remzero"):
            # the message operand is the dividend; the divisor is in the asserted condition `!(divisor == 0)`
            c = self.deref(st, self.operand(st, frame, t["cond"]))
            ok = False
            if c[0] == "bool" and c[1] is not TOP:
                s2 = st.copy()
                self.assume(s2, c[1], not t.get("expected", True))
                ok = s2.bottom
            s = self.site(fn, b, k, "divisor is not zero")
            if not st.bottom:
                s.seen += 1
                if not ok:
                    if s.ok:
                        s.fail_detail = "cannot show the divisor is non-zero [context: %s]" % " > ".join(self.stack[-3:])
                    s.ok = False
                elif s.proof is None:
                    s.proof = "the assert condition is implied by the state"
            if c[0] == "bool":
                self.assume(st, c[1], t.get("expected", True))
            return
        if k == "overflowneg":
            self.require(st, fn, b, "overflowneg", "negation does not overflow", [None], cls="B")
            return
        txt = (m.get("text") or "").lower()
        if "misaligned" in txt or "null pointer" in txt or "enum" in txt:
            s = self.site(fn, b, "ubcheck", "debug UB check on a compiler-generated pointer (vec!/Box): not input-dependent", cls="U")
            s.seen += 1
            return
        self.require(st, fn, b, "assert:other", txt[:60], [None])

    # ================================================================== calls
    def arg(self, st, frame, t, i):
        if i >= len(t["args"]):
            return TOP
        o = t["args"][i]
        v = self.operand(st, frame, o)
        if v[0] == "ptr" and v[1] not in self.ktype:
            ty = (o.get("p") or {}).get("ty") or o.get("ty") or ""
            if ty.startswith("&"):
                ty = ty[1:].lstrip()
                if ty.startswith("'"):
                    ty = ty.split(" ", 1)[1] if " " in ty else ty
                if ty.startswith("mut "):
                    ty = ty[4:]
                self.ktype[v[1]] = ty
        return v

    def argd(self, st, frame, t, i):
        return self.deref(st, self.arg(st, frame, t, i))

    def set_dest(self, st, frame, t, v):
        key, left = self.resolve(st, frame, t["dest"])
        if left:
            return
        self.ktype[key] = t["dest"]["ty"]
        if v is None:
            v = self.default_noentry(st, t["dest"]["ty"])
        if v[0] == "agg":
            v = TOP
        self.write_key(st, key, v)

    def recv_key(self, st, frame, t, i=0):
        a = self.arg(st, frame, t, i)
        n = 0
        last = None
        while a[0] == "ptr" and n < 8:
            last = a[1]
            nxt = st.env.get(last)
            if nxt is None or nxt[0] != "ptr":
                break
            a = nxt
            n += 1
        return last

    def closure_def_types(self, fn, o):
        """operand types of the aggregate that creates the closure held in operand o (the captured variables)"""
        l = o["p"]["l"]
        for b in range(fn.n):
            for s in fn.stmts(b):
                if s["k"] == "assign" and s["p"]["l"] == l and not s["p"].get("proj") and s["r"].get("k") == "aggregate" and s["r"].get("ak") == "closure":
                    return [((x.get("p") or {}).get("ty") or x.get("ty") or "") for x in s["r"].get("ops") or ()]
        return None

    def run_closure_args(self, fn, frame, b, t, st):
        """a crate closure handed to a std / dependency function (for_each, retain, filter, map, find, spawn ...): its
        body is analysed here, with the captured variables bound to the caller's state.  It may run any number of
        times, now or later while the borrows last, so everything it captures by `&mut` is forgotten before and after;
        what it captures by shared reference or by value cannot change while it is alive.  Parameters are unknown."""
        if t.get("callee_local") is not False:
            return
        from .libmodel import COMBINATORS
        name = nm(t)
        if any(matches(name, k) for k in COMBINATORS):
            return
        for argi, o in enumerate(t["args"]):
            if o.get("k") not in ("copy", "move") or "{closure@" not in o["p"]["ty"] or o["p"]["ty"].startswith("&"):
                continue
            c = self.closure_of_operand(fn, o)
            if c is None or c.name in self.inline_stack or len(self.inline_stack) >= self.inline_depth + 2:
                continue
            if self.scope is not None and c.name not in self.scope:
                continue
            tys = self.closure_def_types(fn, o)
            key, left = self.resolve(st, frame, o["p"])
            if tys is None or left:
                continue
            muts = []
            for i, ty in enumerate(tys):
                if ty.startswith("&mut"):
                    v = st.env.get((key[0], key[1], key[2] + (i,)))
                    if v is not None and v[0] == "ptr":
                        muts.append(v[1])
                    else:
                        muts = None
                        break
            if muts is None:
                continue
            for mk in muts:
                self.havoc_key(st, mk)
            if self.single_use_closure(fn, o):
                self.closure_ctx_only.add(c.name)
            else:
                self.closure_multi.add(c.name)
            s1 = st.copy()
            vals = [None] * (c.argc - 1)
            saved = (self.cur, self.symctr)
            r = self.call_closure(fn, frame, b, t, s1, argi, vals)
            self.cur, self.symctr = saved
            if r is None:
                self.closure_multi.add(c.name)
            for mk in muts:
                self.havoc_key(st, mk)

    # (callee, index of the size argument): calls that request memory for a number of elements chosen by the caller
    ALLOC_SIZE_ARG = (("Vec::with_capacity", 0), ("String::with_capacity", 0), ("VecDeque::with_capacity", 0), ("HashMap::with_capacity", 0),
                      ("HashSet::with_capacity", 0), ("Vec::reserve", 1), ("Vec::reserve_exact", 1), ("Vec::try_reserve", 1),
                      ("Vec::try_reserve_exact", 1), ("String::reserve", 1), ("String::reserve_exact", 1), ("String::try_reserve", 1),
                      ("vec::from_elem", 1), ("Vec::resize", 1), ("str::repeat", 1), ("slice::repeat", 1), ("VecDeque::reserve", 1),
                      ("HashMap::reserve", 1), ("HashSet::reserve", 1), ("Box::new_uninit_slice", 0), ("Vec::resize_with", 1))
    ALLOC_FACTOR = 4       # requested elements <= ALLOC_FACTOR * len(some sequence the state already holds) + ALLOC_SLACK
    ALLOC_SLACK = 64
    ALLOC_CONST = 9000     # or <= the largest datagram the daemon accepts

    def check_alloc(self, fn, frame, b, t, st, name):
        """class-M site: the number of elements a reservation asks for is bounded by what is already in memory (a linear
        function of the length of a sequence in the state) or by a small constant — never by a number merely read from
        the input.  Nothing is assumed afterwards (an oversized request is not a panic)."""
        for (m, i) in self.ALLOC_SIZE_ARG:
            if not (matches(name, m) or name.endswith("::" + m) or name.endswith(m)):
                continue
            s = self.site(fn, b, "alloc", "requested capacity is bounded by the data already held", cls="M")
            if st.bottom:
                return
            s.seen += 1
            v = self.deref(st, self.arg(st, frame, t, i))
            k = v[1] if v[0] == "int" else None
            ok = False
            how = None
            if k is not None:
                if st.store.entails(k.addc(-self.ALLOC_CONST)):
                    ok, how = True, "%s <= %d" % (k, self.ALLOC_CONST)
                else:
                    lens = []
                    for key in sorted(st.env, key=repr):
                        vv = st.env[key]
                        if isinstance(vv, tuple) and vv and vv[0] == "seq" and vv[1] not in lens:
                            lens.append(vv[1])
                    for L in lens[:40]:
                        if st.store.entails(k.sub(L.scale(self.ALLOC_FACTOR)).addc(-self.ALLOC_SLACK)):
                            ok, how = True, "%s <= %d * %s + %d" % (k, self.ALLOC_FACTOR, L, self.ALLOC_SLACK)
                            break
            if ok:
                if s.proof is None:
                    s.proof = how
            else:
                if s.ok:
                    iv = st.store.interval(k) if k is not None else None
                    s.fail_detail = "requested element count %s (range %s) is not bounded by a sequence in memory [context: %s]" % (
                        k, iv, " > ".join(self.stack[-3:]))
                s.ok = False
            return

    def exec_call(self, fn, frame, b, t, st):
        name = nm(t)
        tgt = t.get("target")
        self.run_closure_args(fn, frame, b, t, st)
        self.check_alloc(fn, frame, b, t, st, name)
        res = self.model_call(fn, frame, b, t, st, name)
        if res == "diverge":
            return []
        if res is not None:
            if tgt is None:
                return []
            return res if isinstance(res, list) else [(tgt, st, None)]
        # local crate function?
        targets = self.P.call_targets(t)
        if len(targets) == 1 and targets[0] in self.P.fns and t.get("rkind") in ("item", "shim", None):
            callee = self.P.fns[targets[0]]
            r = self.call_local(fn, frame, b, t, st, callee)
            if r is not None:
                return r
        # unknown / dyn: havoc &mut arguments, default result; declared invariants are checked before and assumed
        # after when every possible target is a crate function (each is analysed on its own)
        local_targets = [self.P.fns[x] for x in targets if x in self.P.fns]
        all_local = bool(targets) and len(local_targets) == len(targets)
        for c in local_targets:
            self.observe_args(fn, frame, b, t, st, c)
            self.check_invariants_at_call(fn, frame, b, t, st, c)
            if self.scope is None or c.name in self.scope:
                self.need_standalone(c)
        self.havoc_call(fn, frame, b, t, st, targets)
        if all_local:
            for c in local_targets[:1]:
                self.assume_invariants_after_call(fn, frame, b, t, st, c)
        self.set_dest(st, frame, t, None)
        if all_local:
            self.apply_ret_range(st, frame, t, [c.name for c in local_targets])
        if tgt is None:
            return []
        return [(tgt, st, None)]

    def havoc_call(self, fn, frame, b, t, st, targets):
        written = None
        if self.eff is not None and targets:
            written = set()
            for tg in targets:
                written |= {f for (_o, f) in self.eff.writes(tg)}
        for i, a in enumerate(t["args"]):
            if a.get("k") not in ("copy", "move"):
                continue
            ty = a["p"]["ty"]
            v = self.arg(st, frame, t, i)
            if v[0] == "ptr" and ty.startswith("&mut"):
                key = v[1]
                # grow-only fields: the callee(s) can only append to them
                keep = []
                adt = self._adt_of_ty(ty)
                for (madt, mfield) in self.monotone:
                    if adt and adt.endswith(madt) and targets and all(self.grow_only(tg, madt, mfield) for tg in targets):
                        fk = (key[0], key[1], key[2] + (mfield,))
                        old = self.deref(st, self.read_key(st, fk, self.field_types(adt).get(mfield)))
                        if old[0] == "seq":
                            keep.append((fk, old))
                if written is not None and not seq_kind(ty) and not is_int_ty(ty.replace("&mut ", "")):
                    self.havoc_key(st, key, fields=written)
                else:
                    self.havoc_key(st, key)
                for (fk, old) in keep:
                    ns = self.newsym(st, "grown", 0, LEN_MAX)
                    st.store.add(old[1].sub(Lin.sym(ns)))       # old length <= new length
                    self.symctr += 1
                    st.env[fk] = ("seq", Lin.sym(ns), frozenset(), ("val", "%s.g%d" % (self.cur, self.symctr)))

    GROW_ONLY_METHODS = ("Vec::push", "Vec::extend", "Extend::extend", "Vec::extend_from_slice", "IndexMut::index_mut", "Vec::as_mut_slice",
                         "DerefMut::deref_mut", "Vec::reserve", "Vec::insert", "Vec::append")

    def grow_only(self, fname, adt_suffix, field):
        """no function reachable from fname shrinks or replaces <adt>.<field>: every mutable use of the field is the
        receiver of an appending Vec method (or an in-place element write)"""
        ck = (adt_suffix, field)
        if ck not in self._shrinkers:
            sh = set()
            for f in self.P.fns.values():
                bad = False
                for b in range(f.n):
                    for s in f.stmts(b):
                        if s["k"] != "assign":
                            continue
                        # assignment to the field itself
                        pr = s["p"].get("proj") or ()
                        if pr and pr[-1][0] == "field" and pr[-1][2] == field and (pr[-1][4] or "").endswith(adt_suffix):
                            bad = True
                        r = s["r"]
                        if r.get("k") in ("ref", "addrof") and r.get("bk") in ("mut", "Mut"):
                            rp = r["p"].get("proj") or ()
                            if rp and rp[-1][0] == "field" and rp[-1][2] == field and (rp[-1][4] or "").endswith(adt_suffix):
                                # the borrow must be consumed by a grow-only method as its receiver
                                tmp = s["p"]["l"]
                                # every use of the borrow is as the receiver of a grow-only method
                                uses = good = 0
                                for b2 in range(f.n):
                                    for s2 in f.stmts(b2):
                                        if s2["k"] == "assign" and s2 is not s and _mentions_local(s2["r"], tmp):
                                            uses += 1
                                    tt = f.term(b2)
                                    if tt["k"] == "call":
                                        for ai, a in enumerate(tt["args"]):
                                            if a.get("k") in ("move", "copy") and a["p"]["l"] == tmp:
                                                uses += 1
                                                if ai == 0 and matches(nm(tt), *self.GROW_ONLY_METHODS):
                                                    good += 1
                                if uses == 0 or uses != good:
                                    bad = True
                if bad:
                    sh.add(f.name)
            self._shrinkers[ck] = sh
            self._grow_cache[ck] = {}
        cache = self._grow_cache[ck]
        if fname not in cache:
            reach = self.P.reachable_from([fname])
            cache[fname] = not (reach & self._shrinkers[ck])
        return cache[fname]

    # ------------------------------------------------------------------ local calls: inline or summarise
    def inlinable(self, callee):
        if callee.name in self.no_inline:
            return False
        if callee.n > self.max_inline_blocks:
            return False
        if callee.name in self.inline_stack:
            return False
        return True

    def call_local(self, fn, frame, b, t, st, callee):
        in_scope = self.scope is None or callee.name in self.scope
        depth_ok = len(self.inline_stack) < self.inline_depth or (callee.n <= 12 and len(self.inline_stack) < self.inline_depth + 4)
        if in_scope and depth_ok and self.inlinable(callee):
            return self.inline(fn, frame, b, t, st, callee)
        # not inlined: the callee is analysed on its own; check declared invariants as preconditions,
        # havoc what it writes, assume invariants afterwards
        self.observe_args(fn, frame, b, t, st, callee)
        self.check_invariants_at_call(fn, frame, b, t, st, callee)
        self.havoc_call(fn, frame, b, t, st, [callee.name])
        if in_scope:
            self.need_standalone(callee)
        else:
            self.out_of_scope_calls.add(callee.name)
        tgt = t.get("target")
        if tgt is None:
            return []
        dty = t["dest"]["ty"]
        if opt_family(dty) == "Result" and self.invariants:
            # the callee re-establishes declared invariants at its non-error exits only: split on the result tag
            st_err = st.copy()
            self.assume_invariants_after_call(fn, frame, b, t, st, callee)
            rv = self.default_noentry(st, dty)
            self.set_dest(st, frame, t, ("opt", "Ok", rv[2] if rv[0] == "opt" else None, "Result"))
            rv2 = self.default_noentry(st_err, dty)
            self.set_dest(st_err, frame, t, ("opt", "Err", None, "Result"))
            return [(tgt, st, None), (tgt, st_err, None)]
        self.assume_invariants_after_call(fn, frame, b, t, st, callee)
        rv = self.default_noentry(st, dty)
        self.set_dest(st, frame, t, rv)
        self.apply_ret_range(st, frame, t, [callee.name])
        self.assume_invariant_on_result(fn, frame, t, st)
        return [(tgt, st, None)]

    def observe_args(self, fn, frame, b, t, st, callee):
        """record the interval of every integer argument of a call that is not inlined; after the run the hull over
        all call sites is a sound range for the parameter of a function nobody outside the crate can call"""
        for i in range(min(callee.argc, len(t["args"]))):
            if not is_int_ty(callee.local_ty(i + 1)):
                continue
            v = self.deref(st, self.arg(st, frame, t, i))
            lo = hi = None
            if v[0] == "int":
                lo, hi = st.store.interval(v[1])
                # the interval from symbol ranges may be loose: tighten through the constraint store for common bounds
                for cand in (1 << 62, 1 << 63):
                    if (hi is None or hi > cand) and st.store.entails(v[1].addc(-cand)):
                        hi = cand
            tlo, thi = TYPE_RANGE[callee.local_ty(i + 1)]
            lo = tlo if lo is None else max(lo, tlo)
            hi = thi if hi is None else min(hi, thi)
            cur = self.observed.get((callee.name, i + 1))
            self.observed[(callee.name, i + 1)] = (lo, hi) if cur is None else (min(cur[0], lo), max(cur[1], hi))
        self.observed_calls[callee.name] = self.observed_calls.get(callee.name, 0) + 1

    def need_standalone(self, callee):
        if callee.name not in self.analyzed_standalone:
            self.pending_standalone.add(callee.name)

    def copy_subtree(self, st, src_key, dst_key):
        """by-value move/copy of an aggregate: its tracked components are copied under the new root"""
        n = len(src_key[2])
        for k in [k for k in st.env if k[0] == src_key[0] and k[1] == src_key[1] and k[2][:n] == src_key[2]]:
            st.env[(dst_key[0], dst_key[1], dst_key[2] + k[2][n:])] = st.env[k]
            if k in self.ktype:
                self.ktype[(dst_key[0], dst_key[1], dst_key[2] + k[2][n:])] = self.ktype[k]

    def bind_arg(self, st, frame, o, f2, i, ty):
        """bind operand o (of the caller's frame) to parameter i of callee frame f2"""
        v = self.operand(st, frame, o) if o is not None else TOP
        if v[0] == "havoc":
            v = self.default_noentry(st, ty)
        self.ktype[(f2, i, ())] = ty
        if (v is TOP or v[0] == "top") and o is not None and o.get("k") in ("copy", "move"):
            key, left = self.resolve(st, frame, o["p"])
            if not left:
                self.copy_subtree(st, key, (f2, i, ()))
                return
        st.env[(f2, i, ())] = v

    def inline_core(self, fn, frame, b, tagname, st, callee, bind, dest=None):
        """run callee's body in a fresh (deterministically numbered) frame; bind(st, f2) sets the parameters.
        Returns [(state, return value)] with the callee frame removed."""
        fk = (frame, fn.name, b, tagname)
        f2 = self.frame_ids.get(fk)
        if f2 is None:
            self.frames += 1
            f2 = self.frames
            self.frame_ids[fk] = f2
        for k in [k for k in st.env if k[0] == f2]:
            del st.env[k]
        saved_cur, saved_ctr = self.cur, self.symctr
        bind(st, f2)
        self.inline_stack.append(callee.name)
        self.stack.append("%s@%s" % (callee.short, fn.loc(b)))
        try:
            exits = self.analyze_body(callee, f2, st)
        finally:
            self.inline_stack.pop()
            self.stack.pop()
            self.cur, self.symctr = saved_cur + "r", saved_ctr
        out = []
        for (s2, rv) in exits:
            if dest is not None and (rv is None or rv is TOP or rv[0] in ("top", "agg")):
                # aggregate result: move its tracked components to the destination
                dframe, dplace = dest
                dkey, dleft = self.resolve(s2, dframe, dplace)
                if not dleft:
                    self.write_key(s2, dkey, TOP)
                    self.copy_subtree(s2, (f2, 0, ()), dkey)
                    rv = ("moved",)
            for k in [k for k in s2.env if k[0] == f2]:
                del s2.env[k]
            if rv is not None and rv[0] == "ptr" and rv[1][0] == f2:
                rv = None
            out.append((s2, rv))
        return out

    def finish_call(self, fn, frame, b, t, exits, tagname):
        """write the return values into the call's destination and partition the exits by returned tag"""
        tgt = t.get("target")
        if tgt is None or not exits:
            return []
        sts = []
        for (s2, rv2) in exits:
            key, left = self.resolve(s2, frame, t["dest"])
            if rv2 is not None and rv2[0] == "moved":
                sts.append(s2)
                continue
            if not left:
                self.ktype[key] = t["dest"]["ty"]
                if rv2 is None or rv2[0] in ("havoc",):
                    rv2 = self.default_noentry(s2, t["dest"]["ty"])
                if rv2[0] == "agg":
                    rv2 = TOP
                self.write_key(s2, key, rv2)
            sts.append(s2)
        # keep the exits partitioned by the returned tag so that `?` in the caller stays correlated with the effects
        groups = {}
        for s2 in sts:
            key, left = self.resolve(s2, frame, t["dest"])
            rv = s2.env.get(key) if not left else None
            g = "ok" if rv is not None and rv[0] == "opt" and rv[1] in ("Ok", "Some", "Continue") else \
                "err" if rv is not None and rv[0] == "opt" and rv[1] in ("Err", "None", "Break") else "other"
            groups.setdefault(g, []).append(s2)
        outs = []
        for g in sorted(groups):
            outs.append((tgt, self.gc(self.join(groups[g], "%d:%s:%d:%s:ret%s" % (frame, fn.short[-20:], b, tagname[-12:], g))), None))
        return outs

    def inline(self, fn, frame, b, t, st, callee):
        def bind(st_, f2):
            for i in range(callee.argc):
                o = t["args"][i] if i < len(t["args"]) else None
                self.bind_arg(st_, frame, o, f2, i + 1, callee.local_ty(i + 1))
        exits = self.inline_core(fn, frame, b, callee.name, st, callee, bind, dest=(frame, t["dest"]))
        return self.finish_call(fn, frame, b, t, exits, callee.name)

    # ------------------------------------------------------------------ closures handed to std combinators
    def closure_of_operand(self, fn, o):
        """the closure body (Fn) behind a call operand whose type is a closure type, or None"""
        if o is None or o.get("k") not in ("copy", "move"):
            return None
        if self.closure_types is None:
            self.closure_types = {}
            for f in self.P.fns.values():
                if f.j.get("closure") and f.argc >= 1:
                    ty = f.local_ty(1)
                    ty = ty[1:].lstrip() if ty.startswith("&") else ty
                    ty = ty[4:] if ty.startswith("mut ") else ty
                    self.closure_types.setdefault(ty, []).append(f)
        ty = o["p"]["ty"]
        ty = ty[1:].lstrip() if ty.startswith("&") else ty
        ty = ty[4:] if ty.startswith("mut ") else ty
        c = self.closure_types.get(ty) or []
        return c[0] if len(c) == 1 else None

    def single_use_closure(self, fn, o):
        """the closure value is created for this call only: its local has no other use in the function"""
        l = o["p"]["l"]
        if o["p"].get("proj"):
            return False
        uses = 0
        for b in range(fn.n):
            for s in fn.stmts(b):
                if s["k"] != "assign":
                    continue
                r = s["r"]
                for x in ([r.get("a"), r.get("b")] + list(r.get("ops") or ())):
                    if isinstance(x, dict) and x.get("k") in ("copy", "move") and x["p"]["l"] == l:
                        uses += 1
                if isinstance(r.get("p"), dict) and r["p"]["l"] == l:
                    uses += 1
            tt = fn.term(b)
            for x in tt.get("args") or ():
                if isinstance(x, dict) and x.get("k") in ("copy", "move") and x["p"]["l"] == l:
                    uses += 1
        return uses == 1

    def call_closure(self, fn, frame, b, t, st, argi, values):
        """apply the closure passed as argument argi of call t to `values`; returns [(state, result)] or None when
        the closure body is not available / not inlinable (callers then fall back to havoc)"""
        o = t["args"][argi] if argi < len(t["args"]) else None
        c = self.closure_of_operand(fn, o)
        if c is None or c.name in self.inline_stack or len(self.inline_stack) >= self.inline_depth + 1:
            return None
        if c.n > 4 * self.max_inline_blocks:
            return None
        if c.argc != 1 + len(values):
            return None
        if self.single_use_closure(fn, o):
            self.closure_ctx_only.add(c.name)
        else:
            self.closure_multi.add(c.name)

        def bind(st_, f2):
            envty = c.local_ty(1)
            self.ktype[(f2, 1, ())] = envty
            key, left = self.resolve(st_, frame, o["p"])
            if envty.startswith("&"):
                if not left:
                    st_.env[(f2, 1, ())] = ("ptr", key)
            elif not left:
                self.copy_subtree(st_, key, (f2, 1, ()))
            for i, v in enumerate(values):
                ty = c.local_ty(i + 2)
                self.ktype[(f2, i + 2, ())] = ty
                if v is None or v is TOP or v[0] in ("havoc", "top"):
                    v = self.default_noentry(st_, ty)
                st_.env[(f2, i + 2, ())] = v
        return self.inline_core(fn, frame, b, "closure:%d:%s" % (argi, c.name), st, c, bind)

    # ------------------------------------------------------------------ struct invariants
    def _inv_lins(self, st, key, inv, tys):
        def ifield(f):
            v = self.deref(st, self.read_key(st, (key[0], key[1], key[2] + (f,)), tys.get(f)))
            return v[1] if v[0] == "int" else None

        def lfield(f):
            v = self.deref(st, self.read_key(st, (key[0], key[1], key[2] + (f,)), tys.get(f)))
            return v[1] if v[0] == "seq" else None
        return inv.build(ifield, lfield)

    def _adt_of_ty(self, ty):
        t = ty
        while t.startswith("&"):
            t = t[1:].lstrip()
            if t.startswith("mut "):
                t = t[4:]
        return t

    def field_types(self, adt):
        a = self.P.adts.get(adt)
        if not a:
            return {}
        return {f["name"]: f["ty"] for f in a["variants"][0]["fields"]}

    def assume_invariants_at_entry(self, fn, frame, st):
        for i in range(1, fn.argc + 1):
            adt = self._adt_of_ty(fn.local_ty(i))
            for inv in self.invariants:
                if inv.adt == adt:
                    lins = self._inv_lins(st, (frame, i, ()), inv, self.field_types(adt))
                    for l in lins:
                        if l is not None:
                            st.store.add(l)

    def touches_invariant(self, callee, inv):
        """does the callee (transitively) read or write a field the invariant mentions?  A function that never
        touches them can neither rely on the invariant nor break it."""
        if not inv.fields:
            return True
        if self._touch is None:
            direct = {}
            for f in self.P.fns.values():
                s = set()
                def scan_place(p):
                    for pe in p.get("proj") or ():
                        if pe[0] == "field" and pe[2] and pe[4]:
                            s.add((pe[4], pe[2]))
                def scan_op(o):
                    if isinstance(o, dict) and "p" in o and isinstance(o["p"], dict):
                        scan_place(o["p"])
                for b in range(f.n):
                    for st_ in f.stmts(b):
                        if st_["k"] in ("assign", "setdiscr"):
                            scan_place(st_["p"])
                        r = st_.get("r")
                        if isinstance(r, dict):
                            if "p" in r and isinstance(r["p"], dict):
                                scan_place(r["p"])
                            for o in (r.get("a"), r.get("b")):
                                scan_op(o)
                            for o in r.get("ops") or ():
                                scan_op(o)
                    tt = f.term(b)
                    for o in tt.get("args") or ():
                        scan_op(o)
                    if "dest" in tt:
                        scan_place(tt["dest"])
                    scan_op(tt.get("d"))
                direct[f.name] = s
            cg = self.P.callgraph()
            trans = {n: set(v) for n, v in direct.items()}
            changed = True
            while changed:
                changed = False
                for n, outs in cg.items():
                    cur = trans.setdefault(n, set())
                    k0 = len(cur)
                    for o in outs:
                        cur |= trans.get(o, set())
                    if len(cur) != k0:
                        changed = True
            self._touch = trans
        acc = self._touch.get(callee.name, set())
        return any(o.endswith(inv.adt.split("::")[-1]) and f in inv.fields for (o, f) in acc)

    def check_invariants_at_call(self, fn, frame, b, t, st, callee):
        for i in range(min(callee.argc, len(t["args"]))):
            adt = self._adt_of_ty(callee.local_ty(i + 1))
            for inv in self.invariants:
                if inv.adt == adt and self.touches_invariant(callee, inv):
                    v = self.arg(st, frame, t, i)
                    if v[0] != "ptr":
                        continue
                    lins = self._inv_lins(st, v[1], inv, self.field_types(adt))
                    self.require(st, fn, b, "invariant:" + inv.desc, "struct invariant %s holds when %s is called" % (inv.desc, callee.short), lins)

    def assume_invariants_after_call(self, fn, frame, b, t, st, callee):
        for i in range(min(callee.argc, len(t["args"]))):
            adt = self._adt_of_ty(callee.local_ty(i + 1))
            for inv in self.invariants:
                if inv.adt == adt:
                    v = self.arg(st, frame, t, i)
                    if v[0] != "ptr":
                        continue
                    lins = self._inv_lins(st, v[1], inv, self.field_types(adt))
                    for l in lins:
                        if l is not None:
                            st.store.add(l)

    def assume_invariant_on_result(self, fn, frame, t, st):
        dty = t["dest"]["ty"]
        if dty.startswith("&"):
            return
        adt = self._adt_of_ty(dty)
        for inv in self.invariants:
            if adt is not None and inv.adt == adt and dty.endswith(inv.adt.split("::")[-1]):
                key, left = self.resolve(st, frame, t["dest"])
                if left:
                    continue
                for l in self._inv_lins(st, key, inv, self.field_types(adt)):
                    if l is not None:
                        st.store.add(l)

    def check_invariants_at_exit(self, fn, frame, exits):
        for (st, rv) in exits:
            if rv is not None and rv[0] == "opt" and rv[1] in ("Err", "Break"):
                continue        # error exits: the object is dropped by the caller chain (path rule in C01)
            # a function returning the struct by value must return it with the invariant established
            radt = self._adt_of_ty(fn.local_ty(0)) if not fn.local_ty(0).startswith("&") else None
            for inv in self.invariants:
                if radt is not None and inv.adt == radt and fn.local_ty(0).replace("mdns_sd::", "") .endswith(inv.adt.split("::")[-1]):
                    lins = self._inv_lins(st, (frame, 0, ()), inv, self.field_types(radt))
                    b = fn.exits()[0] if fn.exits() else 0
                    self.require(st, fn, b, "invariant-new:" + inv.desc, "struct invariant %s holds for the returned value" % inv.desc, lins)
            for i in range(1, fn.argc + 1):
                ty = fn.local_ty(i)
                if not ty.startswith("&mut"):
                    continue
                adt = self._adt_of_ty(ty)
                for inv in self.invariants:
                    if inv.adt == adt:
                        lins = self._inv_lins(st, (frame, i, ()), inv, self.field_types(adt))
                        b = fn.exits()[0] if fn.exits() else 0
                        self.require(st, fn, b, "invariant-exit:" + inv.desc, "struct invariant %s re-established at non-error exit" % inv.desc, lins)

    # ================================================================== top level
    def analyze_function(self, fn):
        self.analyzed_standalone.add(fn.name)
        st = State()
        frame = 0
        self.frames += 1
        frame = self.frames
        for i in range(1, fn.argc + 1):
            ty = fn.local_ty(i)
            self.ktype[(frame, i, ())] = ty
            v = self.default(st, (frame, i, ()), ty)
            if v is not TOP:
                st.env[(frame, i, ())] = v
            # context-insensitive parameter ranges from the callers
            rng = self.param_ranges.get((fn.name, i))
            if rng and v[0] == "int":
                lo, hi = rng
                if lo is not None:
                    st.store.add(Lin.const(lo).sub(v[1]))
                if hi is not None:
                    st.store.add(v[1].addc(-hi))
        self.assume_invariants_at_entry(fn, frame, st)
        self.stack.append(fn.short)
        try:
            exits = self.analyze_body(fn, frame, st)
        finally:
            self.stack.pop()
        self.check_invariants_at_exit(fn, frame, exits)
        # interval of the integer result over all exits of this context-free analysis: valid for every call
        if is_int_ty(fn.local_ty(0)):
            lo_all, hi_all = None, None
            first = True
            tlo, thi = TYPE_RANGE[fn.local_ty(0)]
            for (s2, rv) in exits:
                lo = hi = None
                if rv is not None and rv[0] == "int":
                    lo, hi = s2.store.interval(rv[1])
                    for cand in (1 << 62, 1 << 63):
                        if (hi is None or hi > cand) and s2.store.entails(rv[1].addc(-cand)):
                            hi = cand
                lo = tlo if lo is None else max(lo, tlo)
                hi = thi if hi is None else min(hi, thi)
                lo_all = lo if first else min(lo_all, lo)
                hi_all = hi if first else max(hi_all, hi)
                first = False
            if not first:
                self.ret_observed[fn.name] = (lo_all, hi_all)
        return exits

    def apply_ret_range(self, st, frame, t, targets):
        """integer result of a call that was not inlined: the hull of the result ranges its possible targets showed
        in the previous round (each was analysed for all inputs)"""
        if not targets or not is_int_ty(t["dest"]["ty"]):
            return
        rs = [self.ret_ranges.get(x) for x in targets]
        if any(r is None for r in rs):
            return
        lo, hi = min(r[0] for r in rs), max(r[1] for r in rs)
        key, left = self.resolve(st, frame, t["dest"])
        if left:
            return
        v = st.env.get(key)
        if v is not None and v[0] == "int":
            st.store.add(Lin.const(lo).sub(v[1]))
            st.store.add(v[1].addc(-hi))
            self.ret_used.update(targets)

    def run(self, roots):
        self.pending_standalone = set(roots)
        n = 0
        while self.pending_standalone and n < 2000:
            n += 1
            name = sorted(self.pending_standalone)[0]
            self.pending_standalone.discard(name)
            if name in self.analyzed_standalone:
                continue
            fn = self.P.fns.get(name)
            if fn is None:
                continue
            self.analyze_function(fn)
        return self.sites

    # ================================================================== library model
    def model_call(self, fn, frame, b, t, st, name):
        from .libmodel import model
        return model(self, fn, frame, b, t, st, name)
