"""F2 — loop termination verdicts.

Per natural loop one of
  iterator   the loop leaves on `None` from `Iterator::next` of a finite std iterator (type table below), the call
             dominates every back edge, and the iterator local is not re-assigned in the body;
  ranked     a lexicographic ranking over integer places was found by the abstract interpreter: along every
             path head -> back edge some component strictly decreases (unsigned) or strictly increases under a
             loop-invariant upper bound, earlier components not moving the wrong way;
  open       neither (reported with the offending back-edge path).
No path is executed; the abstract transfer functions of absint2 are applied once to the loop body with paths kept
separate (`Analyzer.analyze_region`).
"""
import re

from .absint import key_str
from .linarith import Lin
from .model import strip_generics

ADAPTERS_1 = {"Map", "Filter", "FilterMap", "Enumerate", "Take", "Peekable", "Rev", "Skip", "Cloned", "Copied", "StepBy",
              "TakeWhile", "SkipWhile", "Inspect", "Fuse", "MapWhile"}
ADAPTERS_2 = {"Chain", "Zip"}
LEAVES = {
    "slice": {"Iter", "IterMut", "Chunks", "ChunksExact", "Windows", "Split"},
    "vec": {"IntoIter", "Drain"},
    "hash_map": {"Iter", "IterMut", "Keys", "Values", "ValuesMut", "IntoIter", "Drain", "IntoKeys", "IntoValues"},
    "hash_set": {"Iter", "IntoIter", "Drain"},
    "btree_map": {"Iter", "IterMut", "Keys", "Values", "ValuesMut", "IntoIter", "Range"},
    "btree_set": {"Iter", "IntoIter", "Range"},
    "binary_heap": {"Iter", "IntoIter", "Drain"},
    "vec_deque": {"Iter", "IterMut", "IntoIter", "Drain"},
    "str": {"Chars", "CharIndices", "Bytes", "Split", "SplitN", "RSplit", "RSplitN", "Lines", "SplitWhitespace", "SplitTerminator",
            "SplitInclusive", "Matches", "MatchIndices", "SplitAsciiWhitespace"},
    "string": {"Drain"},
    "option": {"Iter", "IterMut", "IntoIter"},
    "result": {"Iter", "IterMut", "IntoIter"},
    "array": {"IntoIter"},
    "ops": {"Range", "RangeInclusive"},
    "iter": {"Once", "Empty", "OnceWith"},
}
INT_TYS = {"u8", "u16", "u32", "u64", "usize", "u128", "i8", "i16", "i32", "i64", "isize", "i128"}


def split_top(s):
    out, depth, cur = [], 0, []
    prev = ""
    for ch in s:
        if ch in "<([{":
            depth += 1
        elif ch in ">)]}" and not (ch == ">" and prev == "-"):
            depth -= 1
        prev = ch
        if ch == "," and depth == 0:
            out.append("".join(cur).strip())
            cur = []
        else:
            cur.append(ch)
    if cur:
        out.append("".join(cur).strip())
    return out


def parse_ctor(ty):
    """'std::iter::Map<A, B>' -> ('std::iter::Map', [A, B])"""
    ty = ty.strip()
    i = ty.find("<")
    if i < 0 or not ty.endswith(">") or ty.endswith("->"):
        return ty, []
    return ty[:i], [a for a in split_top(ty[i + 1:-1]) if not a.startswith("'")]


def finite_iterator(ty):
    """(verdict, reason) for an iterator type string"""
    ty = re.sub(r"^&(mut )?", "", ty.strip())
    ctor, args = parse_ctor(ty)
    parts = ctor.split("::")
    name = parts[-1]
    mod = parts[-2] if len(parts) >= 2 else ""
    if ctor in ("mio::event::Iter", "mio::event::events::Iter"):
        return True, "finite"          # iterates the fixed-capacity Events buffer filled by one poll()
    if parts[0] not in ("std", "core", "alloc"):
        return False, "iterator type %s is not a std type" % ctor
    if mod == "iter" or mod == "adapters":
        if name in ADAPTERS_1:
            if not args:
                return False, "adapter without argument"
            return finite_iterator(args[0])
        if name in ADAPTERS_2:
            for a in args[:2]:
                ok, why = finite_iterator(a)
                if not ok:
                    return ok, why
            return True, "finite"
        if name in LEAVES["iter"]:
            return True, "finite"
        return False, "std::iter::%s is not in the finite-iterator table" % name
    if mod == "ops":
        if name in LEAVES["ops"] and args and args[0] in INT_TYS:
            return True, "finite"
        return False, "%s<%s> is not a bounded integer range" % (name, ",".join(args))
    if mod in LEAVES and name in LEAVES[mod]:
        return True, "finite"
    return False, "%s is not in the finite-iterator table" % ctor


def loop_own_blocks(fn, head, loops):
    body = loops[head]
    inner = set()
    for h2, b2 in loops.items():
        if h2 != head and h2 in body and b2 < body:
            inner |= b2
    return body, inner


def iterator_verdict(fn, head, loops, P=None):
    body, inner = loop_own_blocks(fn, head, loops)
    latches = [p for p in fn.preds(head) if p in body]
    dom = fn.dominators()
    for b in sorted(body - inner):
        t = fn.term(b)
        if t["k"] != "call" or "Iterator::next" not in strip_generics(t.get("callee") or ""):
            continue
        if not all(b in dom[l] for l in latches):
            continue
        tgt = t.get("target")
        if tgt is None:
            continue
        # the result's discriminant switch: some arm for None (0) leaves the loop
        dest = t["dest"]
        sw = None
        cur = tgt
        for _ in range(3):
            tt = fn.term(cur)
            if tt["k"] == "switch":
                sw = (cur, tt)
                break
            if tt["k"] == "goto":
                cur = tt["target"]
                continue
            break
        if sw is None:
            continue
        sb, st = sw
        disc_of_dest = False
        for s in fn.stmts(sb):
            if s["k"] == "assign" and s["r"].get("k") == "discr" and s["r"]["p"]["l"] == dest["l"] and not s["r"]["p"].get("proj"):
                disc_of_dest = True
        if not disc_of_dest:
            continue
        none_exit = [tg for v, tg in st.get("branches", []) if v == 0]
        if not none_exit:
            # `None` may be the otherwise arm when Some (1) is listed explicitly
            if any(v == 1 for v, _ in st.get("branches", [])):
                none_exit = [st.get("otherwise")]
        if not none_exit or none_exit[0] is None or none_exit[0] in body:
            continue
        a = t["args"][0]
        ty = a["p"]["ty"] if "p" in a else "?"
        ok, why = finite_iterator(ty)
        if not ok and P is not None and (re.sub(r"^&(mut )?", "", ty).startswith("impl ") or re.fullmatch(r"&(mut )?[A-Z]\w*", ty.strip())):
            # the iterator is a generic parameter: every caller must instantiate it with a finite iterator
            sites = list(P.call_sites_of(fn.name))
            bad = None
            for (cf, cb, ct) in sites:
                gs = [g for g in (ct.get("gargs") or []) if isinstance(g, str) and not g.startswith("'") and not g.startswith("closure:")]
                if not any(finite_iterator(g)[0] for g in gs):
                    bad = "call at %s instantiates the iterator parameter with %s" % (cf.loc(cb), gs)
            if sites and bad is None:
                ok, why = True, "finite"
                ty = "%s (generic; all %d call sites pass finite std iterators)" % (ty, len(sites))
            else:
                why = bad or "generic iterator parameter and no call site found"
        if not ok:
            return None, why
        # the iterator local behind the &mut temp must not be re-assigned inside the loop
        # follow the reborrow chain `_t = &mut (*_u); _u = &mut _iter` to the iterator local
        it_local = a["p"]["l"]
        for _ in range(4):
            nxt = None
            for bb in body:
                for s in fn.stmts(bb):
                    if s["k"] == "assign" and s["p"]["l"] == it_local and not s["p"].get("proj") and s["r"].get("k") == "ref":
                        nxt = s["r"]["p"]["l"]
            if nxt is None:
                break
            it_local = nxt
        for bb in body:
            for s in fn.stmts(bb):
                if s["k"] == "assign" and s["p"]["l"] == it_local and not s["p"].get("proj"):
                    return None, "iterator local _%d is re-assigned inside the loop" % it_local
            tt = fn.term(bb)
            if tt["k"] == "call" and tt["dest"]["l"] == it_local and not tt["dest"].get("proj"):
                return None, "iterator local _%d is re-assigned inside the loop" % it_local
        return "iterator", "exits on None from <%s as Iterator>::next at bb%d (line %d)" % (re.sub(r"^&(mut )?", "", ty)[:80], b, fn.term_line(b))
    return None, "no dominating Iterator::next with a None exit"


class LoopVerdict:
    def __init__(self, fn, head, kind, detail, contexts=0):
        self.fn, self.head, self.kind, self.detail, self.contexts = fn, head, kind, detail, contexts

    @property
    def ok(self):
        return self.kind in ("iterator", "ranked")


def _int_keys(st):
    return {k: v[1] for k, v in st.env.items() if isinstance(v, tuple) and v and v[0] == "int" and isinstance(v[1], Lin)}


def _len_keys(st):
    return {k: v[1] for k, v in st.env.items() if isinstance(v, tuple) and v and v[0] == "seq" and isinstance(v[1], Lin) and not v[1].is_const()}


def ranking_verdict(A, fn, frame, head, loops):
    """lexicographic ranking from one region pass; returns (ok, detail)"""
    ls = A.loop_states.get((fn.name, frame))
    if ls is None:
        return None, "loop not analysed in this context"
    instate, _edge = ls
    if head not in instate or not instate[head]:
        return True, "loop head unreachable in the abstract semantics"
    st_head = instate[head][0]
    body = loops[head]
    A.stack.append(fn.short)
    pinned = set()
    for H in list(_int_keys(st_head).values()) + list(_len_keys(st_head).values()):
        pinned.update(H.syms())
    A.pinned = pinned
    try:
        back = A.analyze_region(fn, frame, head, st_head.copy(), body)
    finally:
        A.stack.pop()
        A.pinned = set()
    if not back:
        return True, "no feasible back edge"
    Hs = _int_keys(st_head)
    head_pref = "j:%d:%s:%d:" % (frame, fn.short[-20:], head)
    # candidate components
    rows = []       # per back state: dict comp -> ('strict'|'weak'|None)
    comps = set()
    Ls = _len_keys(st_head)
    for (src, s) in back:
        Vs = _int_keys(s)
        VLs = _len_keys(s)
        row = {}
        # a shrinking sequence on its own: len strictly decreases
        for lk, HL in Ls.items():
            VL = VLs.get(lk)
            if VL is not None:
                if s.store.entails(VL.sub(HL).addc(1)):
                    row[("shrink", lk)] = "strict"
                elif s.store.entails(VL.sub(HL)):
                    row[("shrink", lk)] = "weak"
        for k, H in Hs.items():
            V = Vs.get(k)
            if V is None:
                continue
            d = V.sub(H)
            # decreasing, bounded below by the unsigned type
            lo_ok = s.store.entails(V.scale(-1))
            if lo_ok:
                if s.store.entails(d.addc(1)):
                    row[("dec", k)] = "strict"
                elif s.store.entails(d):
                    row[("dec", k)] = "weak"
            # distance to a sequence length that may itself shrink: f = len - v, with f >= 1 whenever the body
            # runs (the loop guard) and f decreasing by at least one
            for lk, HL in Ls.items():
                VL = VLs.get(lk)
                if VL is None:
                    continue
                fH = HL.sub(H)
                fV = VL.sub(V)
                if s.store.entails(Lin.const(1).sub(fH)):
                    if s.store.entails(fV.sub(fH).addc(1)):
                        row[("dist", k, lk)] = "strict"
                    elif s.store.entails(fV.sub(fH)):
                        row[("dist", k, lk)] = "weak"
            # increasing under a loop-invariant upper bound
            if s.store.entails(d.scale(-1)):
                strict = s.store.entails(d.scale(-1).addc(1))
                for B in _invariant_bounds(s, V, head_pref):
                    row[("inc", k, B)] = "strict" if strict else "weak"
        rows.append(row)
        comps |= set(row)
    remaining = list(range(len(back)))
    order = []
    while remaining:
        pick = None
        for c in sorted(comps, key=repr):
            if all(rows[i].get(c) for i in remaining) and any(rows[i].get(c) == "strict" for i in remaining):
                pick = c
                break
        if pick is None:
            # name the path on which the fewest candidate components are monotone
            i = min(remaining, key=lambda i: (len(rows[i]), i))
            src, s = back[i]
            trail = " -> ".join("bb%d" % b for b, _ in s.trail[-12:]) or "bb%d" % src
            lines = sorted({fn.term_line(b) for b, _ in s.trail})
            moved = []
            Vs = _int_keys(s)
            for k, H in Hs.items():
                V = Vs.get(k)
                if V is not None and V != H:
                    moved.append("%s := %s" % (key_str(k), V))
            return False, ("no ranking for the back edge from bb%d (path lines %s; blocks %s); integer places changed on it: %s"
                           % (src, ",".join(map(str, lines[:14])), trail, "; ".join(moved[:6]) or "none"))
        order.append(pick)
        remaining = [i for i in remaining if rows[i].get(pick) != "strict"]
    desc = []
    for c in order:
        if c[0] == "dec":
            desc.append("%s strictly decreases (unsigned)" % key_str(c[1]))
        elif c[0] == "dist":
            desc.append("len(%s) - %s strictly decreases and is >= 1 whenever the body runs" % (key_str(c[2]), key_str(c[1])))
        elif c[0] == "shrink":
            desc.append("len(%s) strictly decreases" % key_str(c[1]))
        else:
            desc.append("%s strictly increases, bounded by %s" % (key_str(c[1]), c[2]))
    return True, "lexicographic ranking over %d back-edge paths: %s" % (len(back), " ; then ".join(desc))


def _invariant_bounds(s, V, head_pref):
    """loop-invariant linear upper bounds B with V <= B entailed: symbols not created by this head's join"""
    out = []
    syms = set()
    for c in s.store.cons:
        cs = c.syms()
        if any(x in cs for x in V.syms()):
            syms.update(cs)
    for x in sorted(syms):
        if x.startswith(head_pref) or x in V.syms():
            continue
        if not (x.startswith("len:") or x.startswith("in:")):
            continue
        B = Lin.sym(x)
        if s.store.entails(V.sub(B)):
            out.append(x)
    return out


def analyse_loops(A, P, fn_names):
    """verdict per (function, loop head) over all contexts in which the analyzer saw the function"""
    out = []
    for name in sorted(fn_names):
        fn = P.fns.get(name)
        if fn is None:
            continue
        loops = fn.loops()
        for head in sorted(loops):
            kind, detail = iterator_verdict(fn, head, loops, P)
            if kind:
                out.append(LoopVerdict(fn, head, kind, detail))
                continue
            frames = sorted(fr for (n, fr) in A.loop_states if n == name)
            if not frames:
                out.append(LoopVerdict(fn, head, "open", "not iterator-driven (%s) and the function was never analysed" % detail))
                continue
            bad = None
            good = None
            for fr in frames:
                ok, why = ranking_verdict(A, fn, fr, head, loops)
                if ok:
                    good = why
                else:
                    bad = why
                    break
            if bad:
                out.append(LoopVerdict(fn, head, "open", "not iterator-driven (%s); %s" % (detail, bad), len(frames)))
            else:
                out.append(LoopVerdict(fn, head, "ranked", good, len(frames)))
    return out
