//! mirfacts — MIR fact extractor for the mdns-sd static checks.
//!
//! Used as RUSTC_WORKSPACE_WRAPPER: argv[1] is the real rustc path, the rest are rustc's
//! arguments.  For the primary package it runs the compiler with the rustc_public API and
//! writes one JSON fact file (path in $MIRFACTS_OUT) in a single write; for every other crate it
//! simply execs rustc.
#![feature(rustc_private)]

extern crate rustc_driver;
extern crate rustc_hir;
extern crate rustc_interface;
extern crate rustc_middle;
extern crate rustc_public;
extern crate rustc_public_bridge;
extern crate rustc_span;

use rustc_middle::ty::TyCtxt;
use rustc_public::mir::alloc::GlobalAlloc;
use rustc_public::mir::mono::{Instance, InstanceKind};
use rustc_public::mir::*;
use rustc_public::rustc_internal;
use rustc_public::ty::*;
use rustc_public::{CrateDef, ItemKind};
use std::collections::{BTreeMap, BTreeSet};
use std::fmt::Write as _;
use std::ops::ControlFlow;

// ------------------------------------------------------------------------------------------
// minimal JSON value + writer
// ------------------------------------------------------------------------------------------
#[derive(Clone)]
enum J {
    Null,
    Bool(bool),
    Int(i128),
    Str(String),
    Arr(Vec<J>),
    Obj(Vec<(&'static str, J)>),
}

fn s<T: Into<String>>(x: T) -> J {
    J::Str(x.into())
}
fn i<T: TryInto<i128>>(x: T) -> J {
    match x.try_into() {
        Ok(v) => J::Int(v),
        Err(_) => J::Null,
    }
}

fn write_json(j: &J, out: &mut String) {
    match j {
        J::Null => out.push_str("null"),
        J::Bool(b) => out.push_str(if *b { "true" } else { "false" }),
        J::Int(v) => {
            // JSON numbers above 2^63 are kept exact by Python; fine.
            let _ = write!(out, "{}", v);
        }
        J::Str(st) => {
            out.push('"');
            for c in st.chars() {
                match c {
                    '"' => out.push_str("\\\""),
                    '\\' => out.push_str("\\\\"),
                    '\n' => out.push_str("\\n"),
                    '\r' => out.push_str("\\r"),
                    '\t' => out.push_str("\\t"),
                    c if (c as u32) < 0x20 => {
                        let _ = write!(out, "\\u{:04x}", c as u32);
                    }
                    c => out.push(c),
                }
            }
            out.push('"');
        }
        J::Arr(v) => {
            out.push('[');
            for (n, x) in v.iter().enumerate() {
                if n > 0 {
                    out.push(',');
                }
                write_json(x, out);
            }
            out.push(']');
        }
        J::Obj(v) => {
            out.push('{');
            for (n, (k, x)) in v.iter().enumerate() {
                if n > 0 {
                    out.push(',');
                }
                out.push('"');
                out.push_str(k);
                out.push_str("\":");
                write_json(x, out);
            }
            out.push('}');
        }
    }
}

// ------------------------------------------------------------------------------------------
// extraction
// ------------------------------------------------------------------------------------------
struct Cx<'tcx> {
    tcx: TyCtxt<'tcx>,
    adts: BTreeMap<String, AdtDef>,
}

thread_local! {
    static QUIET: std::cell::Cell<bool> = std::cell::Cell::new(false);
}

/// `Ty::kind()` hits `todo!()` for a few type kinds in this nightly (seen in serde-derived code):
/// treat those as opaque instead of aborting the extraction.
fn kind_of(t: &Ty) -> Option<TyKind> {
    QUIET.with(|q| q.set(true));
    let r = std::panic::catch_unwind(std::panic::AssertUnwindSafe(|| t.kind())).ok();
    QUIET.with(|q| q.set(false));
    r
}

/// does the type mention an unnormalised projection/opaque alias (Instance::resolve may ICE on those)?
fn has_alias(t: &Ty, depth: usize) -> bool {
    if depth > 5 {
        return false;
    }
    match kind_of(t) {
        None => true,
        Some(TyKind::Alias(..)) => true,
        Some(TyKind::RigidTy(r)) => match r {
            RigidTy::Adt(_, args) => args.0.iter().any(|a| match a {
                GenericArgKind::Type(t2) => has_alias(t2, depth + 1),
                _ => false,
            }),
            RigidTy::Ref(_, t2, _) | RigidTy::RawPtr(t2, _) | RigidTy::Slice(t2) => has_alias(&t2, depth + 1),
            RigidTy::Array(t2, _) => has_alias(&t2, depth + 1),
            RigidTy::Tuple(ts) => ts.iter().any(|t2| has_alias(t2, depth + 1)),
            _ => false,
        },
        _ => false,
    }
}

fn ty_str(t: &Ty) -> String {
    format!("{}", t)
}

impl<'tcx> Cx<'tcx> {
    fn note_ty(&mut self, t: &Ty, depth: usize) {
        if depth > 6 {
            return;
        }
        let Some(k) = kind_of(t) else { return };
        match k {
            TyKind::RigidTy(r) => match r {
                RigidTy::Adt(def, args) => {
                    if def.krate().is_local {
                        self.adts.entry(def.name()).or_insert(def);
                    }
                    for a in args.0.iter() {
                        if let GenericArgKind::Type(t2) = a {
                            self.note_ty(t2, depth + 1);
                        }
                    }
                }
                RigidTy::Ref(_, t2, _) | RigidTy::RawPtr(t2, _) | RigidTy::Slice(t2) => {
                    self.note_ty(&t2, depth + 1)
                }
                RigidTy::Array(t2, _) => self.note_ty(&t2, depth + 1),
                RigidTy::Tuple(ts) => {
                    for t2 in ts.iter() {
                        self.note_ty(t2, depth + 1);
                    }
                }
                _ => {}
            },
            _ => {}
        }
    }

    fn span_j(&self, sp: &rustc_public::ty::Span) -> J {
        let li = sp.get_lines();
        let internal = rustc_internal::internal(self.tcx, *sp);
        let exp = internal.from_expansion();
        let mut v = vec![
            ("l0", i(li.start_line)),
            ("c0", i(li.start_col)),
            ("l1", i(li.end_line)),
            ("c1", i(li.end_col)),
        ];
        if exp {
            // the outermost call site of the expansion, in user code
            let cs = internal.source_callsite();
            let st = rustc_internal::stable(cs);
            let l2 = st.get_lines();
            v.push(("exp", J::Bool(true)));
            v.push(("xl0", i(l2.start_line)));
            v.push(("xfile", s(st.get_filename())));
            let ed = internal.ctxt().outer_expn_data();
            v.push(("macro", s(format!("{:?}", ed.kind))));
        }
        J::Obj(v)
    }

    fn place_j(&mut self, p: &Place, locals: &[LocalDecl]) -> J {
        let mut projs = Vec::new();
        let mut cur_ty = locals[p.local].ty;
        let mut cur_variant: Option<usize> = None;
        for pe in p.projection.iter() {
            let pj = match pe {
                ProjectionElem::Deref => J::Arr(vec![s("deref")]),
                ProjectionElem::Field(idx, fty) => {
                    // field name, if the base is an ADT / closure / tuple
                    let mut fname = String::new();
                    let mut owner = String::new();
                    if let Some(TyKind::RigidTy(RigidTy::Adt(def, _))) = kind_of(&cur_ty) {
                        owner = def.name();
                        let vidx = cur_variant.unwrap_or(0);
                        let vs = def.variants();
                        if let Some(v) = vs.get(vidx) {
                            let fs = v.fields();
                            if let Some(f) = fs.get(*idx) {
                                fname = f.name.clone();
                            }
                            if def.kind() == AdtKind::Enum {
                                owner = format!("{}::{}", owner, v.name());
                            }
                        }
                    }
                    self.note_ty(fty, 0);
                    J::Arr(vec![s("field"), i(*idx), s(fname), s(ty_str(fty)), s(owner)])
                }
                ProjectionElem::Index(l) => J::Arr(vec![s("index"), i(*l)]),
                ProjectionElem::ConstantIndex { offset, min_length, from_end } => J::Arr(vec![
                    s("constindex"),
                    i(*offset),
                    i(*min_length),
                    J::Bool(*from_end),
                ]),
                ProjectionElem::Subslice { from, to, from_end } => {
                    J::Arr(vec![s("subslice"), i(*from), i(*to), J::Bool(*from_end)])
                }
                ProjectionElem::Downcast(v) => {
                    let vi = rustc_public_bridge::IndexedVal::to_index(v);
                    let mut vname = String::new();
                    if let Some(TyKind::RigidTy(RigidTy::Adt(def, _))) = kind_of(&cur_ty) {
                        if let Some(vd) = def.variants().get(vi) {
                            vname = vd.name();
                        }
                    }
                    J::Arr(vec![s("downcast"), i(vi), s(vname)])
                }
                ProjectionElem::OpaqueCast(t) => J::Arr(vec![s("opaquecast"), s(ty_str(t))]),
            };
            projs.push(pj);
            cur_variant = match pe {
                ProjectionElem::Downcast(v) => Some(rustc_public_bridge::IndexedVal::to_index(v)),
                _ => None,
            };
            match pe.ty(cur_ty) {
                Ok(t) => cur_ty = t,
                Err(_) => break,
            }
        }
        J::Obj(vec![("l", i(p.local)), ("proj", J::Arr(projs)), ("ty", s(ty_str(&cur_ty)))])
    }

    fn const_j(&mut self, c: &ConstOperand) -> J {
        let ty = c.ty();
        let mut v: Vec<(&'static str, J)> = vec![("k", s("const")), ("ty", s(ty_str(&ty)))];
        // function item constants
        if let Some(TyKind::RigidTy(RigidTy::FnDef(def, args))) = kind_of(&ty) {
            v.push(("fn", s(def.name())));
            let ga: Vec<J> = args
                .0
                .iter()
                .map(|a| match a {
                    GenericArgKind::Type(t) => s(ty_str(t)),
                    GenericArgKind::Lifetime(_) => s("'_"),
                    GenericArgKind::Const(_) => s("const"),
                })
                .collect();
            v.push(("fnargs", J::Arr(ga)));
        }
        if let Some(TyKind::RigidTy(RigidTy::Closure(def, _))) = kind_of(&ty) {
            v.push(("closure", s(def.name())));
        }
        match c.const_.kind() {
            ConstantKind::Allocated(a) => {
                let prim = matches!(
                    kind_of(&ty),
                    Some(TyKind::RigidTy(
                        RigidTy::Bool | RigidTy::Char | RigidTy::Int(_) | RigidTy::Uint(_)
                    ))
                );
                if prim {
                    let signed = matches!(kind_of(&ty), Some(TyKind::RigidTy(RigidTy::Int(_))));
                    if signed {
                        if let Ok(x) = a.read_int() {
                            v.push(("val", J::Int(x)));
                        }
                    } else if let Ok(x) = a.read_uint() {
                        v.push(("val", i(x)));
                    }
                } else if a.provenance.ptrs.is_empty() {
                    if a.bytes.len() <= 16 && !a.bytes.is_empty() {
                        if let Ok(x) = a.read_uint() {
                            v.push(("raw", i(x)));
                        }
                    }
                } else if a.provenance.ptrs.len() == 1 {
                    // &str / &[u8] constants: pointer + length
                    let is_str = match kind_of(&ty) {
                        Some(TyKind::RigidTy(RigidTy::Ref(_, inner, _))) => {
                            matches!(kind_of(&inner), Some(TyKind::RigidTy(RigidTy::Str)))
                        }
                        _ => false,
                    };
                    if is_str {
                        let (_, prov) = a.provenance.ptrs[0];
                        if let GlobalAlloc::Memory(m) = GlobalAlloc::from(prov.0) {
                            if let Ok(bytes) = m.raw_bytes() {
                                if let Ok(len) = a.read_partial_uint(8..16) {
                                    let len = len as usize;
                                    if len <= bytes.len() {
                                        v.push((
                                            "str",
                                            s(String::from_utf8_lossy(&bytes[..len]).to_string()),
                                        ));
                                    }
                                }
                            }
                        }
                    }
                }
            }
            ConstantKind::Unevaluated(u) => {
                v.push(("uneval", s(u.def.name())));
                if u.promoted.is_none() {
                    let did = rustc_internal::internal(self.tcx, u.def.def_id());
                    if let Ok(cv) = self.tcx.const_eval_poly(did) {
                        if let rustc_middle::mir::ConstValue::Slice { alloc_id, meta } = cv {
                            if let rustc_middle::mir::interpret::GlobalAlloc::Memory(m) = self.tcx.global_alloc(alloc_id) {
                                let a = m.inner();
                                let len = meta as usize;
                                if len <= a.len() {
                                    let bytes = a.inspect_with_uninit_and_ptr_outside_interpreter(0..len);
                                    v.push(("str", s(String::from_utf8_lossy(bytes).to_string())));
                                }
                            }
                        }
                        if let Some(sc) = cv.try_to_scalar_int() {
                            let signed = matches!(kind_of(&ty), Some(TyKind::RigidTy(RigidTy::Int(_))));
                            if signed {
                                v.push(("val", J::Int(sc.to_int(sc.size()))));
                            } else {
                                v.push(("val", i(sc.to_uint(sc.size()))));
                            }
                        }
                    }
                }
                if let Some(p) = u.promoted {
                    v.push(("promoted", i(p)));
                    // evaluate simple promoteds: `_1 = <rvalue>; _0 = &_1`
                    let did = rustc_internal::internal(self.tcx, u.def.def_id());
                    let proms = self.tcx.promoted_mir(did);
                    if let Some(pb) = proms.get(rustc_middle::mir::Promoted::from_u32(p)) {
                        let sb: Body = rustc_internal::stable(pb);
                        let mut inits = Vec::new();
                        for bb in sb.blocks.iter() {
                            for st in bb.statements.iter() {
                                if let StatementKind::Assign(pl, rv) = &st.kind {
                                    if pl.local != 0 && pl.projection.is_empty() {
                                        if !matches!(rv, Rvalue::Ref(..)) {
                                            inits.push(J::Obj(vec![
                                                ("l", i(pl.local)),
                                                ("r", self.rvalue_j(rv, sb.locals())),
                                            ]));
                                        }
                                    }
                                }
                            }
                        }
                        if !inits.is_empty() && inits.len() <= 8 {
                            v.push(("pinit", J::Arr(inits)));
                        }
                    }
                }
            }
            ConstantKind::ZeroSized => {
                v.push(("zst", J::Bool(true)));
            }
            ConstantKind::Ty(_) => {
                v.push(("tyconst", J::Bool(true)));
            }
            ConstantKind::Param(p) => {
                v.push(("param", s(p.name.clone())));
            }
        }
        // pretty text via the internal representation (short)
        let internal = rustc_internal::internal(self.tcx, &c.const_);
        let mut txt = format!("{}", internal);
        if txt.len() > 200 {
            txt.truncate(200);
        }
        v.push(("text", s(txt)));
        J::Obj(v)
    }

    fn operand_j(&mut self, o: &Operand, locals: &[LocalDecl]) -> J {
        match o {
            Operand::Copy(p) => J::Obj(vec![("k", s("copy")), ("p", self.place_j(p, locals))]),
            Operand::Move(p) => J::Obj(vec![("k", s("move")), ("p", self.place_j(p, locals))]),
            Operand::Constant(c) => self.const_j(c),
            Operand::RuntimeChecks(rc) => {
                J::Obj(vec![("k", s("rtcheck")), ("what", s(format!("{:?}", rc)))])
            }
        }
    }

    fn rvalue_j(&mut self, r: &Rvalue, locals: &[LocalDecl]) -> J {
        match r {
            Rvalue::Use(o, _) => J::Obj(vec![("k", s("use")), ("a", self.operand_j(o, locals))]),
            Rvalue::Ref(_, bk, p) => {
                let b = match bk {
                    BorrowKind::Shared => "shared",
                    BorrowKind::Fake(_) => "fake",
                    BorrowKind::Mut { .. } => "mut",
                };
                J::Obj(vec![("k", s("ref")), ("bk", s(b)), ("p", self.place_j(p, locals))])
            }
            Rvalue::AddressOf(k, p) => J::Obj(vec![
                ("k", s("addrof")),
                ("bk", s(format!("{:?}", k))),
                ("p", self.place_j(p, locals)),
            ]),
            Rvalue::BinaryOp(op, a, b) => J::Obj(vec![
                ("k", s("binop")),
                ("op", s(format!("{:?}", op))),
                ("a", self.operand_j(a, locals)),
                ("b", self.operand_j(b, locals)),
            ]),
            Rvalue::CheckedBinaryOp(op, a, b) => J::Obj(vec![
                ("k", s("checked")),
                ("op", s(format!("{:?}", op))),
                ("a", self.operand_j(a, locals)),
                ("b", self.operand_j(b, locals)),
            ]),
            Rvalue::UnaryOp(op, a) => J::Obj(vec![
                ("k", s("unop")),
                ("op", s(format!("{:?}", op))),
                ("a", self.operand_j(a, locals)),
            ]),
            Rvalue::Cast(ck, a, t) => {
                let cks = match ck {
                    CastKind::PointerCoercion(pc) => format!("PointerCoercion::{:?}", pc),
                    other => format!("{:?}", other),
                };
                J::Obj(vec![
                    ("k", s("cast")),
                    ("ck", s(cks)),
                    ("a", self.operand_j(a, locals)),
                    ("ty", s(ty_str(t))),
                ])
            }
            Rvalue::Aggregate(ak, ops) => {
                let mut v: Vec<(&'static str, J)> = vec![("k", s("aggregate"))];
                match ak {
                    AggregateKind::Array(t) => {
                        v.push(("ak", s("array")));
                        v.push(("ty", s(ty_str(t))));
                    }
                    AggregateKind::Tuple => v.push(("ak", s("tuple"))),
                    AggregateKind::Adt(def, vidx, _, _, _) => {
                        v.push(("ak", s("adt")));
                        v.push(("adt", s(def.name())));
                        let vi = rustc_public_bridge::IndexedVal::to_index(vidx);
                        v.push(("variant", i(vi)));
                        if let Some(vd) = def.variants().get(vi) {
                            v.push(("vname", s(vd.name())));
                            let fns: Vec<J> = vd.fields().iter().map(|f| s(f.name.clone())).collect();
                            v.push(("fields", J::Arr(fns)));
                        }
                        if def.krate().is_local {
                            self.adts.entry(def.name()).or_insert(*def);
                        }
                    }
                    AggregateKind::Closure(def, _) => {
                        v.push(("ak", s("closure")));
                        v.push(("closure", s(def.name())));
                    }
                    AggregateKind::Coroutine(def, _) => {
                        v.push(("ak", s("coroutine")));
                        v.push(("closure", s(def.name())));
                    }
                    AggregateKind::CoroutineClosure(def, _) => {
                        v.push(("ak", s("coroutineclosure")));
                        v.push(("closure", s(def.name())));
                    }
                    AggregateKind::RawPtr(..) => v.push(("ak", s("rawptr"))),
                }
                let os: Vec<J> = ops.iter().map(|o| self.operand_j(o, locals)).collect();
                v.push(("ops", J::Arr(os)));
                J::Obj(v)
            }
            Rvalue::Discriminant(p) => {
                J::Obj(vec![("k", s("discr")), ("p", self.place_j(p, locals))])
            }
            Rvalue::Len(p) => J::Obj(vec![("k", s("len")), ("p", self.place_j(p, locals))]),
            Rvalue::CopyForDeref(p) => {
                J::Obj(vec![("k", s("copyforderef")), ("p", self.place_j(p, locals))])
            }
            Rvalue::Repeat(o, n) => {
                let cnt = n.eval_target_usize().ok();
                J::Obj(vec![
                    ("k", s("repeat")),
                    ("a", self.operand_j(o, locals)),
                    ("n", cnt.map(i).unwrap_or(J::Null)),
                ])
            }
            Rvalue::ThreadLocalRef(it) => {
                J::Obj(vec![("k", s("threadlocal")), ("item", s(it.name()))])
            }
            #[allow(unreachable_patterns)]
            other => J::Obj(vec![("k", s("other")), ("text", s(format!("{:?}", other)))]),
        }
    }

    fn unwind_j(u: &UnwindAction) -> J {
        match u {
            UnwindAction::Cleanup(b) => i(*b),
            _ => J::Null,
        }
    }

    fn call_j(
        &mut self,
        func: &Operand,
        args: &[Operand],
        dest: &Place,
        target: &Option<usize>,
        unwind: &UnwindAction,
        locals: &[LocalDecl],
    ) -> J {
        let mut v: Vec<(&'static str, J)> = vec![("k", s("call"))];
        let fty = func.ty(locals).ok();
        let mut done = false;
        if let Some(fty) = fty {
            if let Some(TyKind::RigidTy(RigidTy::FnDef(def, gargs))) = kind_of(&fty) {
                done = true;
                v.push(("callee", s(def.name())));
                v.push(("callee_crate", s(def.krate().name)));
                v.push(("callee_local", J::Bool(def.krate().is_local)));
                let ga: Vec<J> = gargs
                    .0
                    .iter()
                    .map(|a| match a {
                        GenericArgKind::Type(t) => {
                            self.note_ty(t, 0);
                            // closures passed as generic args: name them
                            if let Some(TyKind::RigidTy(RigidTy::Closure(cd, _))) = kind_of(t) {
                                s(format!("closure:{}", cd.name()))
                            } else {
                                s(ty_str(t))
                            }
                        }
                        GenericArgKind::Lifetime(_) => s("'_"),
                        GenericArgKind::Const(_) => s("const"),
                    })
                    .collect();
                v.push(("gargs", J::Arr(ga)));
                let risky = gargs.0.iter().any(|a| match a {
                    GenericArgKind::Type(t) => has_alias(t, 0),
                    _ => false,
                });
                let resolved = if risky {
                    Err(())
                } else {
                    Instance::resolve(def, &gargs).map_err(|_| ())
                };
                match resolved {
                    Ok(inst) => {
                        v.push(("resolved", s(inst.name())));
                        let k = match inst.kind {
                            InstanceKind::Item => s("item"),
                            InstanceKind::Intrinsic => s("intrinsic"),
                            InstanceKind::Virtual { idx } => {
                                v.push(("vidx", i(idx)));
                                s("virtual")
                            }
                            InstanceKind::Shim => s("shim"),
                        };
                        v.push(("rkind", k));
                    }
                    Err(_) => {
                        v.push(("rkind", s("unresolved")));
                    }
                }
            } else {
                v.push(("fnty", s(ty_str(&fty))));
            }
        }
        if !done {
            v.push(("func", self.operand_j(func, locals)));
        }
        let a: Vec<J> = args.iter().map(|o| self.operand_j(o, locals)).collect();
        v.push(("args", J::Arr(a)));
        v.push(("dest", self.place_j(dest, locals)));
        v.push(("target", target.map(i).unwrap_or(J::Null)));
        v.push(("unwind", Self::unwind_j(unwind)));
        J::Obj(v)
    }

    fn term_j(&mut self, t: &Terminator, locals: &[LocalDecl]) -> J {
        let mut j = match &t.kind {
            TerminatorKind::Goto { target } => vec![("k", s("goto")), ("target", i(*target))],
            TerminatorKind::SwitchInt { discr, targets } => {
                let br: Vec<J> =
                    targets.branches().map(|(v, b)| J::Arr(vec![i(v), i(b)])).collect();
                vec![
                    ("k", s("switch")),
                    ("d", self.operand_j(discr, locals)),
                    ("branches", J::Arr(br)),
                    ("otherwise", i(targets.otherwise())),
                ]
            }
            TerminatorKind::Resume => vec![("k", s("resume"))],
            TerminatorKind::Abort => vec![("k", s("abort"))],
            TerminatorKind::Return => vec![("k", s("return"))],
            TerminatorKind::Unreachable => vec![("k", s("unreachable"))],
            TerminatorKind::Drop { place, target, unwind } => vec![
                ("k", s("drop")),
                ("p", self.place_j(place, locals)),
                ("target", i(*target)),
                ("unwind", Self::unwind_j(unwind)),
            ],
            TerminatorKind::Call { func, args, destination, target, unwind } => {
                match self.call_j(func, args, destination, target, unwind, locals) {
                    J::Obj(v) => v,
                    _ => unreachable!(),
                }
            }
            TerminatorKind::Assert { cond, expected, msg, target, unwind } => {
                let m = match msg {
                    AssertMessage::BoundsCheck { len, index } => J::Obj(vec![
                        ("k", s("bounds")),
                        ("len", self.operand_j(len, locals)),
                        ("index", self.operand_j(index, locals)),
                    ]),
                    AssertMessage::Overflow(op, a, b) => J::Obj(vec![
                        ("k", s("overflow")),
                        ("op", s(format!("{:?}", op))),
                        ("a", self.operand_j(a, locals)),
                        ("b", self.operand_j(b, locals)),
                    ]),
                    AssertMessage::OverflowNeg(a) => {
                        J::Obj(vec![("k", s("overflowneg")), ("a", self.operand_j(a, locals))])
                    }
                    AssertMessage::DivisionByZero(a) => {
                        J::Obj(vec![("k", s("divzero")), ("a", self.operand_j(a, locals))])
                    }
                    AssertMessage::RemainderByZero(a) => {
                        J::Obj(vec![("k", s("remzero")), ("a", self.operand_j(a, locals))])
                    }
                    other => J::Obj(vec![
                        ("k", s("other")),
                        ("text", s(other.description().unwrap_or("?").to_string())),
                    ]),
                };
                vec![
                    ("k", s("assert")),
                    ("cond", self.operand_j(cond, locals)),
                    ("expected", J::Bool(*expected)),
                    ("msg", m),
                    ("target", i(*target)),
                    ("unwind", Self::unwind_j(unwind)),
                ]
            }
            TerminatorKind::InlineAsm { .. } => vec![("k", s("asm"))],
        };
        j.push(("sp", self.span_j(&t.span)));
        J::Obj(j)
    }

    fn body_j(&mut self, name: &str, kind: &str, item_span: &rustc_public::ty::Span, body: &Body, extra: Vec<(&'static str, J)>) -> J {
        let locals = body.locals();
        for l in locals {
            self.note_ty(&l.ty, 0);
        }
        // debug names
        let mut names: BTreeMap<usize, String> = BTreeMap::new();
        let mut dbg = Vec::new();
        for d in body.var_debug_info.iter() {
            match &d.value {
                VarDebugInfoContents::Place(p) => {
                    if p.projection.is_empty() {
                        names.entry(p.local).or_insert(d.name.clone());
                    }
                    dbg.push(J::Obj(vec![
                        ("name", s(d.name.clone())),
                        ("p", self.place_j(p, locals)),
                        ("arg", d.argument_index.map(i).unwrap_or(J::Null)),
                    ]));
                }
                VarDebugInfoContents::Const(c) => {
                    dbg.push(J::Obj(vec![("name", s(d.name.clone())), ("c", self.const_j(c))]));
                }
            }
        }
        let ls: Vec<J> = locals
            .iter()
            .enumerate()
            .map(|(n, l)| {
                J::Obj(vec![
                    ("ty", s(ty_str(&l.ty))),
                    ("name", names.get(&n).map(|x| s(x.clone())).unwrap_or(J::Null)),
                    ("mut", J::Bool(matches!(l.mutability, Mutability::Mut))),
                ])
            })
            .collect();
        let mut blocks = Vec::new();
        for b in body.blocks.iter() {
            let mut stmts = Vec::new();
            for st in b.statements.iter() {
                let sj = match &st.kind {
                    StatementKind::Assign(p, r) => Some(vec![
                        ("k", s("assign")),
                        ("p", self.place_j(p, locals)),
                        ("r", self.rvalue_j(r, locals)),
                    ]),
                    StatementKind::SetDiscriminant { place, variant_index } => Some(vec![
                        ("k", s("setdiscr")),
                        ("p", self.place_j(place, locals)),
                        ("variant", i(rustc_public_bridge::IndexedVal::to_index(variant_index))),
                    ]),
                    StatementKind::StorageDead(l) => Some(vec![("k", s("dead")), ("l", i(*l))]),
                    StatementKind::StorageLive(l) => Some(vec![("k", s("live")), ("l", i(*l))]),
                    StatementKind::Intrinsic(NonDivergingIntrinsic::Assume(o)) => {
                        Some(vec![("k", s("assume")), ("a", self.operand_j(o, locals))])
                    }
                    _ => None,
                };
                if let Some(mut v) = sj {
                    let li = st.span.get_lines();
                    v.push(("line", i(li.start_line)));
                    stmts.push(J::Obj(v));
                }
            }
            let t = self.term_j(&b.terminator, locals);
            blocks.push(J::Obj(vec![("stmts", J::Arr(stmts)), ("term", t)]));
        }
        let mut v = vec![
            ("name", s(name)),
            ("kind", s(kind)),
            ("file", s(item_span.get_filename())),
            ("sp", self.span_j(item_span)),
            ("bsp", self.span_j(&body.span)),
            ("argc", i(body.arg_locals().len())),
            ("spread", body.spread_arg().map(i).unwrap_or(J::Null)),
            ("locals", J::Arr(ls)),
            ("dbg", J::Arr(dbg)),
            ("blocks", J::Arr(blocks)),
        ];
        v.extend(extra);
        J::Obj(v)
    }
}

fn analyze(tcx: TyCtxt<'_>) -> ControlFlow<()> {
    let out_path = match std::env::var("MIRFACTS_OUT") {
        Ok(p) => p,
        Err(_) => {
            eprintln!("mirfacts: MIRFACTS_OUT not set");
            return ControlFlow::Continue(());
        }
    };
    let krate = rustc_public::local_crate();
    let mut cx = Cx { tcx, adts: BTreeMap::new() };
    let mut fns = Vec::new();
    let mut seen = BTreeSet::new();
    let eff = tcx.effective_visibilities(());
    for item in rustc_public::all_local_items() {
        let kind = match item.kind() {
            ItemKind::Fn => "fn",
            ItemKind::Static => "static",
            ItemKind::Const => "const",
            ItemKind::Ctor(_) => "ctor",
        };
        if kind == "ctor" {
            continue;
        }
        let name = item.name();
        let Some(body) = item.body() else { continue };
        if !seen.insert(name.clone()) {
            // duplicate def path (should not happen); keep first
            continue;
        }
        let mut extra: Vec<(&'static str, J)> = Vec::new();
        // visibility / reachability from outside the crate
        let did = rustc_internal::internal(tcx, item.def_id());
        let is_closure = tcx.is_closure_like(did);
        extra.push(("closure", J::Bool(is_closure)));
        if let Some(ldid) = did.as_local() {
            if !is_closure && matches!(tcx.def_kind(did), rustc_hir::def::DefKind::Fn | rustc_hir::def::DefKind::AssocFn) {
                extra.push(("exported", J::Bool(eff.is_reachable(ldid))));
                extra.push(("nameable", J::Bool(eff.is_exported(ldid))));
                extra.push(("vis", s(format!("{:?}", tcx.visibility(did)))));
                // parent impl (for methods): trait + self type
                if let Some(impl_did) = tcx.impl_of_assoc(did) {
                    let self_ty = tcx.type_of(impl_did).instantiate_identity().skip_norm_wip();
                    extra.push(("impl_self", s(format!("{}", self_ty))));
                    if let Some(tr) = tcx.impl_opt_trait_ref(impl_did) {
                        let tr = tr.instantiate_identity().skip_norm_wip();
                        extra.push(("impl_trait", s(tcx.def_path_str(tr.def_id))));
                    }
                }
            }
            if is_closure {
                let parent = tcx.typeck_root_def_id(did);
                extra.push(("parent", s(tcx.def_path_str(parent))));
            }
        }
        // signature (for fns)
        if kind == "fn" && !is_closure {
            let sig = tcx.fn_sig(did).instantiate_identity().skip_norm_wip().skip_binder();
            extra.push(("ret", s(format!("{}", sig.output()))));
            let ins: Vec<J> = sig.inputs().iter().map(|t| s(format!("{}", t))).collect();
            extra.push(("params", J::Arr(ins)));
        }
        let sp = item.span();
        fns.push(cx.body_j(&name, kind, &sp, &body, extra));
    }

    // trait impls of the local crate
    let mut impls = Vec::new();
    for imp in krate.trait_impls() {
        let tr = imp.trait_impl();
        let trait_name = tr.value.def_id.name();
        let self_ty = ty_str(&tr.value.self_ty());
        let mut methods = Vec::new();
        for ai in imp.associated_items() {
            if let AssocKind::Fn { name, .. } = &ai.kind {
                methods.push(J::Obj(vec![("name", s(name.clone())), ("def", s(ai.def_id.name()))]));
            }
        }
        impls.push(J::Obj(vec![
            ("trait", s(trait_name)),
            ("self", s(self_ty)),
            ("def", s(imp.name())),
            ("methods", J::Arr(methods)),
        ]));
    }

    // ADTs (fixpoint: field types may mention more local ADTs)
    let mut adts_j = Vec::new();
    let mut done: BTreeSet<String> = BTreeSet::new();
    loop {
        let pending: Vec<(String, AdtDef)> = cx
            .adts
            .iter()
            .filter(|(k, _)| !done.contains(*k))
            .map(|(k, v)| (k.clone(), *v))
            .collect();
        if pending.is_empty() {
            break;
        }
        for (name, def) in pending {
            done.insert(name.clone());
            let mut vars = Vec::new();
            for (vi, vd) in def.variants().iter().enumerate() {
                let mut fields = Vec::new();
                for f in vd.fields() {
                    let fty = f.ty();
                    cx.note_ty(&fty, 0);
                    fields.push(J::Obj(vec![("name", s(f.name.clone())), ("ty", s(ty_str(&fty)))]));
                }
                let discr_val: J = if def.kind() == AdtKind::Enum {
                    i(def
                        .discriminant_for_variant(
                            <rustc_public::ty::VariantIdx as rustc_public_bridge::IndexedVal>::to_val(vi),
                        )
                        .val)
                } else {
                    J::Null
                };
                vars.push(J::Obj(vec![
                    ("name", s(vd.name())),
                    ("discr", discr_val),
                    ("fields", J::Arr(fields)),
                ]));
            }
            adts_j.push(J::Obj(vec![
                ("name", s(name)),
                ("kind", s(format!("{}", def.kind()))),
                ("variants", J::Arr(vars)),
            ]));
        }
    }

    // crate-level attributes of interest
    let mut attrs = Vec::new();
    {
        use rustc_hir::CRATE_HIR_ID;
        for a in tcx.hir_attrs(CRATE_HIR_ID) {
            attrs.push(s(format!("{:?}", a)));
        }
    }
    // lint levels: is unsafe_code forbidden at the crate root?
    let unsafe_lvl = {
        let store = rustc_lint::unerased_lint_store(tcx.sess);
        match store.find_lints("unsafe_code") {
            Some(ids) if !ids.is_empty() => {
                let l = tcx.lint_level_at_node(ids[0].lint, rustc_hir::CRATE_HIR_ID);
                format!("{:?}", l.level)
            }
            _ => "unknown".to_string(),
        }
    };

    let root = J::Obj(vec![
        ("crate", s(krate.name.clone())),
        ("cfg_test", J::Bool(tcx.sess.is_test_crate())),
        ("unsafe_code_level", s(unsafe_lvl)),
        ("crate_attrs", J::Arr(attrs)),
        ("fns", J::Arr(fns)),
        ("impls", J::Arr(impls)),
        ("adts", J::Arr(adts_j)),
    ]);
    let mut out = String::with_capacity(64 << 20);
    write_json(&root, &mut out);
    if let Err(e) = std::fs::write(&out_path, out.as_bytes()) {
        eprintln!("mirfacts: cannot write {}: {}", out_path, e);
    }
    ControlFlow::Continue(())
}

extern crate rustc_lint;

fn main() {
    let mut args: Vec<String> = std::env::args().collect();
    // RUSTC_WORKSPACE_WRAPPER convention: argv[1] = path to rustc
    if args.len() < 2 {
        eprintln!("usage: mirfacts <rustc> <rustc args...>");
        std::process::exit(2);
    }
    let rustc = args.remove(1);
    let primary = std::env::var("CARGO_PRIMARY_PACKAGE").is_ok();
    let want = std::env::var("MIRFACTS_CRATE").unwrap_or_else(|_| "mdns_sd".to_string());
    let mut crate_name = String::new();
    for w in args.windows(2) {
        if w[0] == "--crate-name" {
            crate_name = w[1].clone();
        }
    }
    let is_probe = args.iter().any(|a| a == "-vV" || a.starts_with("--print"));
    if !primary || crate_name != want || is_probe {
        use std::os::unix::process::CommandExt;
        let err = std::process::Command::new(&rustc).args(&args[1..]).exec();
        eprintln!("mirfacts: exec {} failed: {}", rustc, err);
        std::process::exit(127);
    }
    let prev = std::panic::take_hook();
    std::panic::set_hook(Box::new(move |info| {
        if !QUIET.with(|q| q.get()) {
            prev(info);
        }
    }));
    let result = rustc_public::run_with_tcx!(&args, analyze);
    match result {
        Ok(_) | Err(rustc_public::CompilerError::Skipped) | Err(rustc_public::CompilerError::Interrupted(_)) => {}
        Err(_) => std::process::exit(1),
    }
}
