#!/usr/bin/env python3
"""Regenerates /verif/MANIFEST.json from the rule modules (explanations) and the tables below."""
import importlib
import json
import os
import sys

VERIF = os.path.dirname(os.path.dirname(os.path.abspath(__file__)))
sys.path.insert(0, VERIF)

props = [json.loads(l) for l in open(os.path.join(VERIF, "properties.jsonl"))]

TECH = {
    "C01": "abstract interpretation over MIR (interval + symbolic-length domain) for panic-freedom and loop ranking; path rules",
    "C02": "sibling-table agreement of encoder/decoder (MIR-extracted layouts), field-effect rollback completeness, control-dependence rules",
    "C03": "event provenance (who-may-construct) and guarded-by rules over MIR value origins; formula conformance",
    "C04": "pipeline-connectivity rules over MIR (field coverage, must-pass-through, provenance)",
    "C05": "must-consume of eviction results, loop must-pass-through, who-may-construct, key-normalisation dataflow",
    "C06": "control-dependence (status gating), record-builder discipline by value origin, constant-field dead-branch analysis",
    "C07": "control-dependence of probe gates, who-writes analysis, formula conformance, key-normalisation dataflow",
    "C08": "sibling agreement compare_rdata vs write, timer-pairing path rule, rename-taint dataflow over record builders",
    "C09": "control-dependence of reply/goodbye, record-builder discipline, rename-taint and key-normalisation dataflow",
    "C10": "formula conformance (normal forms of MIR expressions), field coverage of matches(), control-dependence",
    "C11": "formula conformance, ladder extraction from the CFG, loop must-pass-through",
    "C12": "timer-pairing must-consume rule with carriers, interprocedural lifting; positivity (no-spin) of re-arm delays",
    "C13": "start/stop sibling agreement on Command variants, ordering/dominance rules, key-normalisation dataflow, who-holds-a-Sender type scan",
    "C14": "ownership/ordering rules over MIR (receiver use scan, who-may-call), thread-reachability effect discipline for blocking sends",
    "C15": "abstract interpretation over MIR for panic sites reachable from API and daemon roots; validate-before-enqueue path rule",
    "C16": "abstract interpretation over MIR (bounds, termination ranking, length interval), sibling format table, control-dependence",
    "C17": "key-normalisation dataflow, event provenance and liveness guards, ordering rules, must-consume",
    "C18": "same-origin dataflow for interface values, per-map purge coverage (field effects), sibling loop agreement, guarded-by rules",
    "C19": "formula conformance of the schedule, payload-interval induction, start/stop sibling rule, who-may-call classification",
    "C20": "per-map maintenance coverage (receiver-exact map scans), guarded-by rule for map creation, field coverage of metrics",
}

NOT_YET = {}

m = {
    "version": 1,
    "setup_cmd": "./setup.sh",
    "hooks": {
        "guard": "none (no hooks: every check analyses the unmodified tree; nothing in /repo is instrumented)",
        "enable": "n/a — checks run `cargo +nightly check --offline --lib` on /repo with the mirfacts rustc wrapper "
                  "(RUSTC_WORKSPACE_WRAPPER); no cfg flag or feature is set",
        "baseline_off_cmd": "cd /repo && cargo test --workspace --no-fail-fast --offline",
        "source_commits": [],
        "add_only": True,
    },
    "engines": [
        {"name": "mirfacts", "path": "engine/mirfacts", "kind_free_text": "rustc_public (stable MIR) fact extractor, run as rustc workspace wrapper on the nightly toolchain",
         "serves_properties": [p["id"] for p in props]},
        {"name": "mdnsverif", "path": "mdnsverif", "kind_free_text": "Python rule engine over the MIR facts: CFG/dominators, value-origin tracing, guards, field effects, "
                                                                   "timer pairing, formula normal forms, numeric abstract interpreter",
         "serves_properties": [p["id"] for p in props]},
    ],
    "checks": [],
    "notes": "Technique family: static analysis only. Every check re-extracts MIR facts from /repo's working tree on each run. "
             "Genuine defects repaired by `fix:` commits in /repo and recorded in known_findings.json (fixed); unrepaired ones are KNOWN-FINDINGs. See DESIGN.md.",
    "not_applicable": [],
}

fix_commits = []
try:
    import subprocess
    out = subprocess.run(["git", "-C", "/repo", "log", "--format=%h %s"], capture_output=True, text=True).stdout
    fix_commits = [l.split()[0] for l in out.splitlines() if l.split(" ", 1)[1].startswith("fix:")]
except Exception:
    pass
m["hooks"]["source_commits"] = list(reversed(fix_commits))

for p in props:
    pid = p["id"]
    try:
        mod = importlib.import_module("mdnsverif.rules." + pid.lower())
    except ImportError:
        m["not_applicable"].append({"property_id": pid, "reason": NOT_YET.get(pid, "no sound static rule armed for this property (see DESIGN.md)")})
        continue
    if getattr(mod, "NOT_APPLICABLE", None):
        m["not_applicable"].append({"property_id": pid, "reason": mod.NOT_APPLICABLE})
        continue
    und = getattr(mod, "UNDECIDED", [])
    m["checks"].append({
        "property_id": pid,
        "quick_cmd": "./check %s --tier quick" % pid,
        "thorough_cmd": "./check %s --tier thorough" % pid,
        "evidence_file": "evidence/%s.json" % pid,
        "replay_cmd_template": "./check %s --explain {path}" % pid,
        "engine": "mdnsverif",
        "level_claimed": {
            "category": getattr(mod, "LEVEL", "other"),
            "text": mod.EXPLANATION,
            "design_ref": "DESIGN.md section 4, " + pid,
        },
        "level_note": ("Decides structural clauses that are necessary conditions of the property, for every path of the analysed build "
                       "configurations; NOT decided: " + "; ".join(und) + ". Trusted base: rustc MIR construction (nightly, -Zmir-opt-level=0), "
                       "Instance::resolve, the transparent-call and library-model tables of mdnsverif."),
        "technique": TECH[pid],
    })

json.dump(m, open(os.path.join(VERIF, "MANIFEST.json"), "w"), indent=1)
print("checks:", len(m["checks"]), "not_applicable:", [x["property_id"] for x in m["not_applicable"]])
