#!/bin/sh
# tools/mutant.sh <patch.diff> [props...]  — apply a seeded change to /repo, run the checks (quick tier, no evidence
# written), print one line per check, undo the change.  Never commits anything in /repo.
set -u
P="$1"; shift
cd "$(dirname "$0")/.." || exit 2
if ! git -C /repo diff --quiet; then echo "/repo has local changes: refusing"; exit 2; fi
git -C /repo apply "$P" || { echo "patch does not apply"; exit 2; }
trap 'git -C /repo checkout -- . ; git -C /repo clean -fdq -e target' EXIT INT TERM
PROPS="${*:-C01 C02 C03 C04 C05 C06 C07 C08 C09 C10 C11 C12 C13 C14 C15 C16 C17 C18 C19 C20}"
OUT=$(mktemp -d /var/tmp/mutant.XXXXXX)
for p in $PROPS; do
  ( ./check $p --tier ${TIER:-quick} --no-evidence > "$OUT/$p.txt" 2>&1; echo "rc=$?" >> "$OUT/$p.txt" ) &
done
wait
for p in $PROPS; do
  rc=$(tail -1 "$OUT/$p.txt"); head -1 "$OUT/$p.txt" | sed "s/^/[$rc] /"
  grep "instance:" "$OUT/$p.txt" | sed 's/^/      /' | cut -c1-260 | head -${SHOW:-6}
done
rm -rf "$OUT"
