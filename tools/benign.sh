#!/bin/bash
# tools/benign.sh [Cxx-En ...]  — run all 20 quick checks against behaviour-preserving refactorings in /verif/benign
# (written by fresh sub-agents, see benign/README.md).  Each patch is applied to a scratch copy of /repo outside /repo and
# /verif, facts are extracted once, the checks run on them, the copy is removed.  Prints one line per patch.
set -u
cd "$(dirname "$0")/.."
W=$(mktemp -d /var/tmp/benign.XXXXXX)
trap 'rm -rf "$W"' EXIT
sel="$*"
for f in benign/C*-E*.diff; do
  id=$(basename "$f" .diff)
  if [ -n "$sel" ] && ! echo " $sel " | grep -q " $id "; then continue; fi
  rm -rf "$W/src"; mkdir -p "$W/src"; (cd /repo && git archive HEAD) | tar -x -C "$W/src"
  if ! (cd "$W/src" && patch -p1 -s < "/verif/$f") >/dev/null 2>&1; then echo "$id: does not apply to the current tree (skipped)"; continue; fi
  PYTHONHASHSEED=0 python3 - "$W" <<'PY' || { echo "$id: does not build (skipped)"; continue; }
import sys, json
sys.path.insert(0, '/verif')
from mdnsverif import facts
w = sys.argv[1]
r = facts.extract('default', repo=w + '/src')
json.dump(r[0], open(w + '/facts.json', 'w'))
PY
  alarms=""
  for p in C01 C02 C03 C04 C05 C06 C07 C08 C09 C10 C11 C12 C13 C14 C15 C16 C17 C18 C19 C20; do
    ( ./check $p --facts "$W/facts.json" --repo "$W/src" --no-evidence > "$W/$p.txt" 2>&1; echo "rc=$?" >> "$W/$p.txt" ) &
  done
  wait
  for p in C01 C02 C03 C04 C05 C06 C07 C08 C09 C10 C11 C12 C13 C14 C15 C16 C17 C18 C19 C20; do
    if ! tail -1 "$W/$p.txt" | grep -q "rc=0"; then alarms="$alarms $p:$(grep -o 'instance: [^|]*' "$W/$p.txt" | sed 's/instance: //' | sort -u | tr '\n' ',' | sed 's/,$//')"; fi
  done
  if [ -z "$alarms" ]; then echo "$id: silent"; else echo "$id: ALARM$alarms"; fi
done
