#!/usr/bin/env python3
"""prints the markdown catch matrix of /verif/seeded (used for DESIGN.md section 0.5)"""
import glob, json, os
rows = []
for d in sorted(glob.glob(os.path.join(os.path.dirname(os.path.dirname(os.path.abspath(__file__))), "seeded", "*"))):
    m = json.load(open(os.path.join(d, "meta.json")))
    rows.append(m)
print("| seeded change | what it breaks (needs) | reported by | rule(s) |")
print("|---|---|---|---|")
for m in rows:
    print("| `%s` | %s | %s | %s |" % (m["id"], m["summary"].replace("|", "/"), ", ".join(m["detected_by"]) or "**not detected**",
                                     ", ".join("`%s`" % r for r in m["reporting_rules"])))
