#!/usr/bin/env python3
"""tools/seeded_table.py [--compact]  prints the markdown catch matrix of /verif/seeded (DESIGN.md 0.5, seeded/README.md)"""
import glob, json, os, sys
root = os.path.dirname(os.path.dirname(os.path.abspath(__file__)))
rows = [json.load(open(os.path.join(d, "meta.json"))) for d in sorted(glob.glob(os.path.join(root, "seeded", "*"))) if os.path.exists(os.path.join(d, "meta.json"))]
compact = "--compact" in sys.argv
if "--round" in sys.argv:
    rnd = int(sys.argv[sys.argv.index("--round") + 1])
    rows = [m for m in rows if m.get("round", 1) == rnd]
if compact:
    print("| change | site / slip | reported by | first version of the check |")
    print("|---|---|---|---|")
    for m in rows:
        s = m["summary"]
        first = "not reported by its own check (no rule found)" if "Not reported by the property's own check" in s else "missed — rule added" if ("Initially missed" in s) else "reported only as a missing anchor — rule added" if "anchor" in s and "; rule added" in s else ("caught by another property's check only — clause added" if "Initially caught only" in s or "Initially reported only" in s else "caught")
        s = s.split(". The first version")[0]
        short = s.split(". Initially")[0].split(" (needs")[0]
        if len(short) > 170:
            short = short[:167] + "…"
        print("| `%s` | %s | %s | %s |" % (m["id"], short.replace("|", "/"), ", ".join(m["detected_by"]) or "**none**", first))
else:
    print("| seeded change | what it breaks (what it needs to show) | reported by | rule(s) |")
    print("|---|---|---|---|")
    for m in rows:
        print("| `%s` | %s | %s | %s |" % (m["id"], m["summary"].replace("|", "/"), ", ".join(m["detected_by"]) or "**not detected**",
                                         ", ".join("`%s`" % r for r in m["reporting_rules"])))
